//! Audit C03, finding 1: job-control signals queued to a target thread are destroyed by a dump.
//!
//! Property clause under test:
//!   "Every queued signal sent to a target thread before or during the dump is delivered to that
//!    thread exactly once."
//!
//! `PtraceDumper::stop_process` sends SIGSTOP to the target and `Drop for PtraceDumper` sends
//! SIGCONT.  The kernel discards every pending SIGTSTP/SIGTTIN/SIGTTOU (all queues, all threads)
//! when a SIGCONT is *generated*, and discards every pending SIGCONT when a stop signal is
//! generated - regardless of the disposition of these signals in the target.  A target that
//! *handles* SIGTSTP / SIGTTIN / SIGTTOU / SIGCONT (shells, editors, pagers, curses programs, ...)
//! therefore never sees such a signal if it was queued before or during the dump.
//!
//! The test re-executes its own binary as the target (`target_role_entry` with AUDIT_C03_ROLE set).
#![cfg(all(target_os = "linux", target_arch = "x86_64"))]

use minidump_writer::minidump_writer::MinidumpWriter;
use std::io::{BufRead, BufReader, Seek, SeekFrom, Write};
use std::process::{Child, ChildStdin, ChildStdout, Command, Stdio};
use std::sync::atomic::{AtomicI32, AtomicUsize, Ordering::SeqCst};

// ------------------------------------------------------------------------------------------
// target side
// ------------------------------------------------------------------------------------------

const NSIG: usize = 65;
#[allow(clippy::declare_interior_mutable_const)]
const ZERO: AtomicUsize = AtomicUsize::new(0);
/// deliveries of signal N on the thread the signal was sent to
static ON_ADDRESSEE: [AtomicUsize; NSIG] = [ZERO; NSIG];
/// deliveries of signal N on any other thread of the target
static ON_OTHER: [AtomicUsize; NSIG] = [ZERO; NSIG];
/// deliveries of signal N (any thread) whose sender, according to siginfo, is the expected sender
static FROM_SENDER: [AtomicUsize; NSIG] = [ZERO; NSIG];
static ADDRESSEE_TID: AtomicI32 = AtomicI32::new(0);
static EXPECTED_SENDER: AtomicI32 = AtomicI32::new(0);

fn gettid() -> i32 {
    unsafe { libc::syscall(libc::SYS_gettid) as i32 }
}

unsafe extern "C" fn on_signal(sig: libc::c_int, info: *mut libc::siginfo_t, _uc: *mut libc::c_void) {
    let sig = sig as usize;
    if gettid() == ADDRESSEE_TID.load(SeqCst) {
        ON_ADDRESSEE[sig].fetch_add(1, SeqCst);
    } else {
        ON_OTHER[sig].fetch_add(1, SeqCst);
    }
    if (*info).si_pid() == EXPECTED_SENDER.load(SeqCst) {
        FROM_SENDER[sig].fetch_add(1, SeqCst);
    }
}

const WATCHED: [libc::c_int; 5] = [
    libc::SIGUSR1,
    libc::SIGTSTP,
    libc::SIGTTIN,
    libc::SIGTTOU,
    libc::SIGCONT,
];

/// Not a test of its own: this is the target process when AUDIT_C03_ROLE is set.
#[test]
fn target_role_entry() {
    let Ok(role) = std::env::var("AUDIT_C03_ROLE") else {
        return;
    };
    let pid = std::process::id() as i32;
    let tid = gettid();
    ADDRESSEE_TID.store(tid, SeqCst);
    // "self": the signals queued before the dump are sent by the target to its own thread.
    // "parent": they are sent by the test process during the dump.
    let sender = if role.contains("during") { unsafe { libc::getppid() } } else { pid };
    EXPECTED_SENDER.store(sender, SeqCst);

    unsafe {
        let mut sa: libc::sigaction = std::mem::zeroed();
        sa.sa_sigaction = on_signal as *const () as usize;
        sa.sa_flags = libc::SA_SIGINFO | libc::SA_RESTART;
        libc::sigemptyset(&mut sa.sa_mask);
        for s in WATCHED {
            assert_eq!(libc::sigaction(s, &sa, std::ptr::null_mut()), 0);
        }
    }

    // A second thread that blocks nothing and just lives.
    std::thread::spawn(|| loop {
        std::thread::sleep(std::time::Duration::from_millis(2));
    });

    // Signals this thread keeps blocked (and thus queued) until it is told to go on.
    let mut blocked: libc::sigset_t = unsafe { std::mem::zeroed() };
    unsafe {
        libc::sigemptyset(&mut blocked);
        for s in WATCHED {
            libc::sigaddset(&mut blocked, s);
        }
        assert_eq!(libc::pthread_sigmask(libc::SIG_BLOCK, &blocked, std::ptr::null_mut()), 0);
    }
    let queue_self = |s: libc::c_int| unsafe {
        assert_eq!(libc::syscall(libc::SYS_tgkill, pid, tid, s), 0);
    };
    if role.contains("before-stop") {
        // An ordinary signal for comparison, and the three catchable job-control stop signals.
        for s in [libc::SIGUSR1, libc::SIGTSTP, libc::SIGTTIN, libc::SIGTTOU] {
            queue_self(s);
        }
    }
    if role.contains("before-cont") {
        queue_self(libc::SIGUSR1);
        queue_self(libc::SIGCONT);
    }

    println!("READY {pid} {tid}");
    let mut line = String::new();
    std::io::stdin().read_line(&mut line).unwrap(); // "go"

    unsafe {
        assert_eq!(libc::pthread_sigmask(libc::SIG_UNBLOCK, &blocked, std::ptr::null_mut()), 0);
    }
    std::thread::sleep(std::time::Duration::from_millis(300));

    let mut out = String::from("COUNTS");
    for s in WATCHED {
        out += &format!(
            " {}:{}:{}:{}",
            s,
            ON_ADDRESSEE[s as usize].load(SeqCst),
            ON_OTHER[s as usize].load(SeqCst),
            FROM_SENDER[s as usize].load(SeqCst)
        );
    }
    println!("{out}");
    line.clear();
    let _ = std::io::stdin().read_line(&mut line); // wait for EOF / "bye"
}

// ------------------------------------------------------------------------------------------
// dumper side
// ------------------------------------------------------------------------------------------

struct Target {
    child: Child,
    stdin: ChildStdin,
    stdout: BufReader<ChildStdout>,
    pid: i32,
    tid: i32,
}

#[derive(Debug, Clone, Copy, PartialEq, Eq)]
struct Count {
    on_addressee: usize,
    on_other: usize,
    from_sender: usize,
}

impl Target {
    fn start(role: &str) -> Self {
        let mut child = Command::new(std::env::current_exe().unwrap())
            .args(["--exact", "target_role_entry", "--nocapture", "--test-threads=1"])
            .env("AUDIT_C03_ROLE", role)
            .stdin(Stdio::piped())
            .stdout(Stdio::piped())
            .spawn()
            .unwrap();
        let stdin = child.stdin.take().unwrap();
        let mut stdout = BufReader::new(child.stdout.take().unwrap());
        let (pid, tid) = loop {
            let mut l = String::new();
            assert_ne!(stdout.read_line(&mut l).unwrap(), 0, "target died early");
            // (libtest may print "test <name> ... " in front of it)
            if let Some(rest) = l.find("READY ").map(|i| &l[i + 6..]) {
                let mut it = rest.split_whitespace().map(|x| x.parse::<i32>().unwrap());
                break (it.next().unwrap(), it.next().unwrap());
            }
        };
        Self { child, stdin, stdout, pid, tid }
    }

    /// Tell the target to unblock its signals, and collect what its handlers have seen.
    fn finish(mut self) -> std::collections::HashMap<i32, Count> {
        writeln!(self.stdin, "go").unwrap();
        let counts = loop {
            let mut l = String::new();
            assert_ne!(self.stdout.read_line(&mut l).unwrap(), 0, "target died");
            if let Some(rest) = l.find("COUNTS ").map(|i| &l[i + 7..]) {
                break rest
                    .split_whitespace()
                    .map(|f| {
                        let v: Vec<usize> = f.split(':').map(|x| x.parse().unwrap()).collect();
                        (
                            v[0] as i32,
                            Count { on_addressee: v[1], on_other: v[2], from_sender: v[3] },
                        )
                    })
                    .collect();
            }
        };
        drop(self.stdin);
        let _ = self.child.wait();
        counts
    }

    /// (state letter, tracer pid) of every thread
    fn thread_states(&self) -> Vec<(i32, char, i32)> {
        let mut v = Vec::new();
        for e in std::fs::read_dir(format!("/proc/{}/task", self.pid)).unwrap() {
            let e = e.unwrap();
            let tid: i32 = e.file_name().to_str().unwrap().parse().unwrap();
            let Ok(status) = std::fs::read_to_string(e.path().join("status")) else { continue };
            let field = |k: &str| {
                status
                    .lines()
                    .find_map(|l| l.strip_prefix(k))
                    .map(|s| s.trim().to_string())
                    .unwrap_or_default()
            };
            let state = field("State:").chars().next().unwrap_or('?');
            let tracer = field("TracerPid:").parse().unwrap_or(-1);
            v.push((tid, state, tracer));
        }
        v
    }

    fn assert_running_and_untraced(&self) {
        // give the SIGCONT a moment to take effect
        std::thread::sleep(std::time::Duration::from_millis(50));
        for (tid, state, tracer) in self.thread_states() {
            assert!(
                tracer == 0 && state != 'T' && state != 't',
                "thread {tid} left in state {state} with tracer {tracer}"
            );
        }
    }
}

/// A destination that runs a callback at its first write, i.e. at a moment when all threads of
/// the target are suspended and the dump is under way.
struct HookedDest<F: FnMut()> {
    inner: std::io::Cursor<Vec<u8>>,
    hook: Option<F>,
}
impl<F: FnMut()> Write for HookedDest<F> {
    fn write(&mut self, b: &[u8]) -> std::io::Result<usize> {
        if let Some(mut h) = self.hook.take() {
            h();
        }
        self.inner.write(b)
    }
    fn flush(&mut self) -> std::io::Result<()> {
        Ok(())
    }
}
impl<F: FnMut()> Seek for HookedDest<F> {
    fn seek(&mut self, p: SeekFrom) -> std::io::Result<u64> {
        self.inner.seek(p)
    }
}

fn dump(t: &Target, hook: impl FnMut()) {
    let mut dest = HookedDest { inner: std::io::Cursor::new(Vec::new()), hook: Some(hook) };
    MinidumpWriter::new(t.pid, t.tid)
        .dump(&mut dest)
        .expect("the dump itself succeeds");
    assert!(dest.hook.is_none());
}

const ONCE_ON_ADDRESSEE: Count = Count { on_addressee: 1, on_other: 0, from_sender: 1 };

/// Sanity check of the set-up: without a dump every queued signal reaches its thread once.
#[test]
fn control_without_dump_every_signal_is_delivered_once() {
    // (two targets, because a SIGCONT and a stop signal cannot be pending at the same time)
    let counts = Target::start("before-stop").finish();
    for s in [libc::SIGUSR1, libc::SIGTSTP, libc::SIGTTIN, libc::SIGTTOU] {
        assert_eq!(counts[&s], ONCE_ON_ADDRESSEE, "signal {s}");
    }
    let counts = Target::start("before-cont").finish();
    for s in [libc::SIGUSR1, libc::SIGCONT] {
        assert_eq!(counts[&s], ONCE_ON_ADDRESSEE, "signal {s}");
    }
}

/// SIGTSTP, SIGTTIN and SIGTTOU are queued to a thread of the target (which handles them, but has
/// them blocked at the moment) before the dump starts.
#[test]
fn stop_signals_queued_before_the_dump_are_delivered_once() {
    let t = Target::start("before-stop");
    let tid = t.tid;
    dump(&t, || ());
    t.assert_running_and_untraced();
    let counts = t.finish();
    println!("{counts:?}");
    // the ordinary signal survives ...
    assert_eq!(counts[&libc::SIGUSR1], ONCE_ON_ADDRESSEE, "SIGUSR1");
    // ... and so must the job-control signals
    for s in [libc::SIGTSTP, libc::SIGTTIN, libc::SIGTTOU] {
        assert_eq!(
            counts[&s], ONCE_ON_ADDRESSEE,
            "signal {s} was queued to thread {} before the dump and must be delivered to it exactly once",
            tid
        );
    }
}

/// The same signals are sent to a thread of the target while the dump is being written.
#[test]
fn stop_signals_sent_during_the_dump_are_delivered_once() {
    let t = Target::start("during");
    let (pid, tid) = (t.pid, t.tid);
    dump(&t, || {
        for s in [libc::SIGUSR1, libc::SIGTSTP, libc::SIGTTIN, libc::SIGTTOU] {
            assert_eq!(unsafe { libc::syscall(libc::SYS_tgkill, pid, tid, s) }, 0);
        }
    });
    t.assert_running_and_untraced();
    let counts = t.finish();
    println!("{counts:?}");
    assert_eq!(counts[&libc::SIGUSR1], ONCE_ON_ADDRESSEE, "SIGUSR1");
    for s in [libc::SIGTSTP, libc::SIGTTIN, libc::SIGTTOU] {
        assert_eq!(
            counts[&s], ONCE_ON_ADDRESSEE,
            "signal {s} was sent to thread {tid} during the dump and must be delivered to it exactly once"
        );
    }
}

/// A SIGCONT is queued to one particular thread of the target before the dump.  The SIGSTOP of
/// the dump discards it; what the target gets instead is the dumper's own process-directed
/// SIGCONT, from another sender and - because the addressee has SIGCONT blocked - on another
/// thread.
#[test]
fn sigcont_queued_to_a_thread_before_the_dump_is_delivered_to_that_thread() {
    let t = Target::start("before-cont");
    let tid = t.tid;
    dump(&t, || ());
    t.assert_running_and_untraced();
    let counts = t.finish();
    println!("{counts:?}");
    assert_eq!(counts[&libc::SIGUSR1], ONCE_ON_ADDRESSEE, "SIGUSR1");
    let c = counts[&libc::SIGCONT];
    assert_eq!(
        (c.on_addressee, c.from_sender),
        (1, 1),
        "the SIGCONT queued to thread {} by the target itself must be delivered to that thread once: {c:?}",
        tid
    );
}
