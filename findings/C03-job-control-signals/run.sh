#!/bin/bash
# Real-kernel demonstration of the C03 known finding. Run from the root of a checkout of
# minidump-writer:  bash /verif/findings/C03-job-control-signals/run.sh
# Exit status is non-zero when the property is violated (i.e. when the test fails).
here="$(cd "$(dirname "$0")" && pwd)"
cp "$here/audit_c03_stop_signals.rs" tests/audit_c03_stop_signals.rs || exit 2
CARGO_NET_OFFLINE=true timeout 600 cargo test --offline --test audit_c03_stop_signals -- --test-threads=1
status=$?
rm -f tests/audit_c03_stop_signals.rs
exit $status
