//! Audit C06, finding 1.
//!
//! Target: two thread stacks that lie next to each other in ONE `rw-p` mapping, each with a guard
//! page installed with `madvise(MADV_GUARD_INSTALL)` at its low end:
//!
//!     [g2][ stack of thread 2 ][g1][ stack of thread 1 ]
//!
//! (what glibc >= 2.42 on Linux >= 6.13 produces for two threads that are created one after the
//! other; the C library of this sandbox is older, so the child lays the stacks out by hand).
//!
//! Dumper: a process in which `process_vm_readv` is not available (here: refused with EPERM by a
//! seccomp filter, as in a container with Docker's default profile and no CAP_SYS_PTRACE), so
//! that the memory reader falls back to `/proc/<pid>/mem` / `PTRACE_PEEKDATA`.
//!
//! Expected (property): the captured stack of thread 2 starts on the page of its stack pointer and
//! contains the stack pointer.
#![cfg(all(target_os = "linux", target_arch = "x86_64"))]

use minidump::{Minidump, MinidumpThreadList};
use minidump_writer::minidump_writer::MinidumpWriter;
use std::{
    io::{BufRead, BufReader},
    process::{Command, Stdio},
    sync::atomic::{AtomicUsize, Ordering},
};

const PAGE: usize = 4096;
const STACK_PAGES: usize = 64; // 256 KiB per thread
const MADV_GUARD_INSTALL: libc::c_int = 102;
const CHILD_ENV: &str = "AUDIT_C06_CHILD";

static TIDS: [AtomicUsize; 2] = [AtomicUsize::new(0), AtomicUsize::new(0)];

extern "C" {
    fn pthread_attr_setstack(
        attr: *mut libc::pthread_attr_t,
        stackaddr: *mut libc::c_void,
        stacksize: libc::size_t,
    ) -> libc::c_int;
}

extern "C" fn thread_main(arg: *mut libc::c_void) -> *mut libc::c_void {
    let idx = arg as usize;
    // something recognisable on the live part of the stack
    let marker = [0xC06C06C0_u32 + idx as u32; 32];
    std::hint::black_box(&marker);
    let tid = unsafe { libc::syscall(libc::SYS_gettid) } as usize;
    TIDS[idx].store(tid, Ordering::SeqCst);
    loop {
        unsafe { libc::pause() };
        std::hint::black_box(&marker);
    }
}

/// Runs in the re-executed test binary.
fn child() -> ! {
    unsafe {
        let total = 2 * (1 + STACK_PAGES) * PAGE;
        let base = libc::mmap(
            std::ptr::null_mut(),
            total,
            libc::PROT_READ | libc::PROT_WRITE,
            libc::MAP_PRIVATE | libc::MAP_ANONYMOUS,
            -1,
            0,
        );
        assert_ne!(base, libc::MAP_FAILED);
        let base = base as usize;
        let g2 = base;
        let s2 = g2 + PAGE;
        let g1 = s2 + STACK_PAGES * PAGE;
        let s1 = g1 + PAGE;
        for g in [g1, g2] {
            let r = libc::madvise(g as *mut _, PAGE, MADV_GUARD_INSTALL);
            if r != 0 {
                println!("UNSUPPORTED madvise(MADV_GUARD_INSTALL) failed");
                std::process::exit(0);
            }
        }
        for (idx, stack) in [s1, s2].into_iter().enumerate() {
            let mut attr: libc::pthread_attr_t = std::mem::zeroed();
            libc::pthread_attr_init(&mut attr);
            assert_eq!(
                pthread_attr_setstack(&mut attr, stack as *mut _, STACK_PAGES * PAGE),
                0
            );
            let mut t: libc::pthread_t = std::mem::zeroed();
            assert_eq!(
                libc::pthread_create(&mut t, &attr, thread_main, idx as *mut _),
                0
            );
        }
        while TIDS.iter().any(|t| t.load(Ordering::SeqCst) == 0) {
            std::thread::sleep(std::time::Duration::from_millis(1));
        }
        // give both threads the time to reach pause()
        std::thread::sleep(std::time::Duration::from_millis(100));
        println!(
            "READY {} {} {} {} {}",
            base,
            g1,
            total,
            TIDS[0].load(Ordering::SeqCst),
            TIDS[1].load(Ordering::SeqCst)
        );
        loop {
            libc::pause();
        }
    }
}

/// Makes `process_vm_readv` fail with EPERM for the calling thread (what Docker's default
/// seccomp profile does for a process without CAP_SYS_PTRACE).
fn forbid_process_vm_readv() {
    let filter = [
        // A = syscall number
        libc::sock_filter { code: 0x20, jt: 0, jf: 0, k: 0 },
        // if A == __NR_process_vm_readv
        libc::sock_filter { code: 0x15, jt: 0, jf: 1, k: libc::SYS_process_vm_readv as u32 },
        // return ERRNO(EPERM)
        libc::sock_filter { code: 0x06, jt: 0, jf: 0, k: 0x0005_0000 | libc::EPERM as u32 },
        // return ALLOW
        libc::sock_filter { code: 0x06, jt: 0, jf: 0, k: 0x7fff_0000 },
    ];
    let prog = libc::sock_fprog {
        len: filter.len() as u16,
        filter: filter.as_ptr() as *mut _,
    };
    unsafe {
        assert_eq!(libc::prctl(libc::PR_SET_NO_NEW_PRIVS, 1, 0, 0, 0), 0);
        assert_eq!(
            libc::prctl(libc::PR_SET_SECCOMP, 2 /* SECCOMP_MODE_FILTER */, &prog),
            0,
            "cannot install the seccomp filter: {}",
            std::io::Error::last_os_error()
        );
    }
}

struct Killer(std::process::Child);
impl Drop for Killer {
    fn drop(&mut self) {
        let _ = self.0.kill();
        let _ = self.0.wait();
    }
}

fn run(without_process_vm_readv: bool) {
    let exe = std::env::current_exe().unwrap();
    let mut child = Killer(
        Command::new(exe)
            .args(["--exact", "child_entry", "--nocapture", "--test-threads=1"])
            .env(CHILD_ENV, "1")
            .stdout(Stdio::piped())
            .spawn()
            .unwrap(),
    );
    let pid = child.0.id() as i32;
    let mut out = BufReader::new(child.0.stdout.take().unwrap());
    let ready = loop {
        let mut line = String::new();
        assert_ne!(out.read_line(&mut line).unwrap(), 0, "child died");
        // libtest writes "test child_entry ... " in front of the first line of the child
        if line.contains("UNSUPPORTED") {
            eprintln!("kernel without MADV_GUARD_INSTALL: nothing to test");
            return;
        }
        if let Some(pos) = line.find("READY ") {
            break line[pos + 6..].trim().to_string();
        }
    };
    let v: Vec<usize> = ready.split(' ').map(|s| s.parse().unwrap()).collect();
    let (base, g1, total, tid1, tid2) = (v[0], v[1], v[2], v[3], v[4]);
    println!(
        "child {pid}: mapping {:#x}-{:#x}, guard g1 at {:#x}, thread 1 = {tid1} (upper stack), \
         thread 2 = {tid2} (lower stack)",
        base,
        base + total,
        g1
    );
    let maps = std::fs::read_to_string(format!("/proc/{pid}/maps")).unwrap();
    let line = maps
        .lines()
        .find(|l| {
            let (a, b) = l.split(' ').next().unwrap().split_once('-').unwrap();
            let (a, b) = (
                usize::from_str_radix(a, 16).unwrap(),
                usize::from_str_radix(b, 16).unwrap(),
            );
            a <= base && base < b
        })
        .unwrap();
    println!("maps line of the stacks: {line}");
    assert!(line.contains(" rw-p "), "the stacks are in one rw-p mapping");

    if without_process_vm_readv {
        forbid_process_vm_readv();
    }

    let mut cursor = std::io::Cursor::new(Vec::new());
    let bytes = MinidumpWriter::new(pid, pid)
        .dump(&mut cursor)
        .expect("dump() failed");
    let raw = bytes.clone();
    let dump = Minidump::read(bytes).unwrap();
    let threads: MinidumpThreadList = dump.get_stream().unwrap();

    let mut violations = Vec::new();
    for t in &threads.threads {
        let tid = t.raw.thread_id as usize;
        // rsp is at offset 0x98 of the AMD64 context record
        let ctx = t.raw.thread_context.rva as usize;
        let sp = u64::from_le_bytes(raw[ctx + 0x98..ctx + 0xa0].try_into().unwrap()) as usize;
        let start = t.raw.stack.start_of_memory_range as usize;
        let size = t.raw.stack.memory.data_size as usize;
        println!(
            "thread {tid}: sp {sp:#x}, captured stack {start:#x}..{:#x} ({size} bytes)",
            start + size
        );
        // every stack pointer of this target is in readable memory
        if start != sp & !(PAGE - 1) {
            violations.push(format!(
                "thread {tid}: region starts at {start:#x}, not on the page of sp {sp:#x}"
            ));
        }
        if !(start <= sp && sp < start + size) {
            violations.push(format!(
                "thread {tid}: region {start:#x}..{:#x} does not contain sp {sp:#x}",
                start + size
            ));
        }
    }
    assert!(
        threads.threads.iter().any(|t| t.raw.thread_id as usize == tid2),
        "thread 2 is listed"
    );
    assert!(violations.is_empty(), "{}", violations.join("\n"));
}

#[test]
fn child_entry() {
    if std::env::var_os(CHILD_ENV).is_some() {
        child();
    }
}

/// Control: with `process_vm_readv` the region ends at the guard page above and is fine.
#[test]
fn stacks_with_default_reader() {
    if std::env::var_os(CHILD_ENV).is_some() {
        return;
    }
    run(false);
}

#[test]
fn stacks_without_process_vm_readv() {
    if std::env::var_os(CHILD_ENV).is_some() {
        return;
    }
    run(true);
}
