#!/bin/sh
# Runs the demonstration from the worktree root. Exit status non-zero = property violated.
cd "$(dirname "$0")/../.." || exit 2
cp audit/finding1/audit_c06_guard_above_sp.rs tests/audit_c06_guard_above_sp.rs || exit 2
trap 'rm -f tests/audit_c06_guard_above_sp.rs' EXIT INT TERM
CARGO_NET_OFFLINE=true cargo test --offline --test audit_c06_guard_above_sp -- stacks_ --nocapture --test-threads=1
