#!/bin/sh
# Finding 1: processor count with CPUs offline. Run from anywhere; works on the worktree root.
# Exit status is non-zero when the property is violated (= the test fails).
#
# Default mode: the situation is produced inside a private mount namespace (unshare -m) by
# bind-mounting, over /proc/cpuinfo, the machine's own cpuinfo with the blocks of two CPUs
# (the second one listed and the last one listed) taken out - exactly what the kernel shows
# when these two CPUs are offline (arch/x86/kernel/cpu/proc.c walks cpu_online_mask). Nothing
# outside the namespace is changed.
#
# REAL_HOTPLUG=1: really takes the two CPUs offline through sysfs for the duration of the test
# and puts them back (needs CONFIG_HOTPLUG_CPU; affects the whole machine while it runs).
set -u
here=$(cd "$(dirname "$0")" && pwd)
root=$(cd "$here/../.." && pwd)
cd "$root" || exit 99
work=$(mktemp -d "$here/work.XXXXXX")
cp "$here/audit_c18_cpu_count.rs" tests/audit_c18_cpu_count.rs
cleanup() { rm -f "$root/tests/audit_c18_cpu_count.rs"; rm -rf "$work"; }
trap cleanup EXIT
export CARGO_NET_OFFLINE=true

cargo test --offline --test audit_c18_cpu_count --no-run >"$work/build.log" 2>&1 || { cat "$work/build.log"; exit 98; }

echo "### control: all CPUs online (expected: ok)"
cargo test --offline --test audit_c18_cpu_count -- --nocapture 2>&1 | grep -E "^test |processor|listed|number_of" 

ids=$(awk -F: '/^processor/ {gsub(/[ \t]/,"",$2); print $2}' /proc/cpuinfo)
n=$(echo "$ids" | wc -l)
[ "$n" -ge 3 ] || { echo "need at least 3 CPUs"; exit 97; }
second=$(echo "$ids" | sed -n 2p)
last=$(echo "$ids" | tail -n 1)

if [ "${REAL_HOTPLUG:-0}" = 1 ]; then
    echo "### CPUs $second and $last really offline (expected with the defect: FAILED)"
    restore() { echo 1 > /sys/devices/system/cpu/cpu$second/online; echo 1 > /sys/devices/system/cpu/cpu$last/online; cleanup; }
    trap restore EXIT
    echo 0 > /sys/devices/system/cpu/cpu$second/online || exit 96
    echo 0 > /sys/devices/system/cpu/cpu$last/online || exit 96
    cargo test --offline --test audit_c18_cpu_count -- --nocapture 2>&1 | tee "$work/out.log" | grep -E "^test |processor|listed|number_of"
else
    echo "### CPUs $second and $last offline, as /proc/cpuinfo then reads (private mount namespace; expected with the defect: FAILED)"
    awk -v a="$second" -v b="$last" 'BEGIN{RS="";ORS="\n\n"} { split($0,l,"\n"); split(l[1],f,":"); gsub(/[ \t]/,"",f[2]); if (f[2]!=a && f[2]!=b) print }' /proc/cpuinfo > "$work/cpuinfo"
    unshare -m sh -c "mount --bind '$work/cpuinfo' /proc/cpuinfo && cargo test --offline --test audit_c18_cpu_count -- --nocapture" 2>&1 | tee "$work/out.log" | grep -E "^test |processor|listed|number_of"
fi
if grep -q "test result: ok" "$work/out.log"; then
    echo "property holds"; exit 0
else
    echo "PROPERTY VIOLATED"; exit 1
fi
