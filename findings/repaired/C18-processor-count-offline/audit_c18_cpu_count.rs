// Property C18, clause "system information names the ... processor count of the machine".
//
// The writer derives MDRawSystemInfo::number_of_processors from /proc/cpuinfo as
// "id in the last `processor` line + 1". /proc/cpuinfo lists the CPUs that are online, under
// their fixed ids, so with CPUs offline (SMT switched off, hotplug, power management) that
// value is not a count of anything: it is neither the number of processors the kernel lists
// (online) nor the number of processors the machine has (present).
//
// The test takes both candidate answers from the kernel and accepts either.
#![cfg(all(target_os = "linux", target_arch = "x86_64"))]

use minidump_writer::minidump_writer::MinidumpWriter;
use std::io::Cursor;

fn u32_at(b: &[u8], o: usize) -> u32 {
    u32::from_le_bytes(b[o..o + 4].try_into().unwrap())
}

/// Number of CPUs in a kernel cpu list such as "0-3,8,10-11".
fn cpu_list_len(list: &str) -> usize {
    list.trim()
        .split(',')
        .filter(|p| !p.is_empty())
        .map(|p| match p.split_once('-') {
            Some((a, b)) => b.parse::<usize>().unwrap() - a.parse::<usize>().unwrap() + 1,
            None => 1,
        })
        .sum()
}

#[test]
fn processor_count_names_a_count_of_processors() {
    let cpuinfo = std::fs::read_to_string("/proc/cpuinfo").unwrap();
    let ids: Vec<usize> = cpuinfo
        .lines()
        .filter_map(|l| {
            let (k, v) = l.split_once(':')?;
            (k.trim() == "processor").then(|| v.trim().parse().unwrap())
        })
        .collect();
    let listed = ids.len();
    let present =
        cpu_list_len(&std::fs::read_to_string("/sys/devices/system/cpu/present").unwrap());

    let mut child = std::process::Command::new("sleep").arg("60").spawn().unwrap();
    let pid = child.id() as i32;
    let mut out = Cursor::new(Vec::new());
    let res = MinidumpWriter::new(pid, pid).dump(&mut out);
    let _ = child.kill();
    let _ = child.wait();
    res.expect("dump failed");
    let b = out.into_inner();

    // header: signature, version, stream count, directory rva
    let (count, dir) = (u32_at(&b, 8) as usize, u32_at(&b, 12) as usize);
    let sysinfo = (0..count)
        .map(|i| dir + i * 12)
        .find(|e| u32_at(&b, *e) == 7 /* SystemInfoStream */)
        .map(|e| u32_at(&b, e + 8) as usize)
        .expect("no system info stream");
    // MDRawSystemInfo: u16 architecture, u16 level, u16 revision, u8 number_of_processors
    let reported = b[sysinfo + 6] as usize;

    println!("processor ids listed by /proc/cpuinfo: {ids:?}");
    println!("listed (online) = {listed}, present = {present}, reported by the writer = {reported}");
    assert!(present <= 255, "machine too large for this test (known limitation)");
    assert!(
        reported == listed || reported == present,
        "number_of_processors = {reported}, but the kernel lists {listed} processors and the \
         machine has {present}"
    );
}
