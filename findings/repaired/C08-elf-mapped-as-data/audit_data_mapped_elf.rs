//! Audit finding 3: an ELF file that the target has mapped as plain data (mmap of the whole file,
//! the way kmod maps a kernel module, or perf / bpftool / a debugger map a kernel image) is
//! listed with a made-up identifier although the file carries a GNU build-id note, when the
//! file's contents are not laid out at "address - base" - a relocatable object (every section
//! address is 0) or an image whose first loadable segment does not begin at file offset 0
//! (vmlinux, bare-metal firmware).
//!
//! Property clause: "... is listed exactly once as a module ... whose debug record holds exactly
//! the build id an independent ELF reader finds in the file".
//!
//! Control: an ordinary shared object mapped the same way gets the right identifier.

use minidump::*;
use minidump_writer::minidump_writer::MinidumpWriter;
use std::io::{BufRead, BufReader};
use std::path::Path;
use std::process::{Command, Stdio};

const HELPER_C: &str = r#"
#include <fcntl.h>
#include <stdio.h>
#include <sys/mman.h>
#include <sys/stat.h>
#include <unistd.h>
int main(int argc, char **argv) {
    int fd = open(argv[1], O_RDONLY); struct stat st;
    if (fd < 0 || fstat(fd, &st)) { perror(argv[1]); return 1; }
    void *p = mmap(0, st.st_size, PROT_READ, MAP_PRIVATE, fd, 0);
    if (p == MAP_FAILED) { perror("mmap"); return 1; }
    printf("%lx\n", (unsigned long)p); fflush(stdout);
    for (;;) pause();
}
"#;

const CODE_C: &str = "int counter[16] = {1};\nint code_fn(int x) { return counter[x & 15] + 1; }\nvoid _start(void) { for (;;) code_fn(1); }\n";

/// Laid out like a kernel image: the loadable segment does not contain the ELF header, it starts
/// at the next page of the file.
const KERNEL_LIKE_LDS: &str = r#"
ENTRY(_start)
PHDRS { text PT_LOAD FLAGS(7); note PT_NOTE FLAGS(4); }
SECTIONS {
  . = 0xffffffff81000000;
  .text : { *(.text*) } :text
  .rodata : { *(.rodata*) } :text
  .data : { *(.data*) *(.bss*) } :text
  .notes : { *(.note.gnu.build-id) } :text :note
  /DISCARD/ : { *(.eh_frame) *(.comment) *(.note.gnu.property) *(.note.GNU-stack) }
}
"#;

fn run(cmd: &mut Command) {
    let out = cmd.output().expect("spawn");
    assert!(out.status.success(), "{:?}: {}", cmd, String::from_utf8_lossy(&out.stderr));
}

/// Independent reader: the descriptor of the first GNU build-id note in any SHT_NOTE section of
/// a little-endian ELF64 file, located by file offset.
fn build_id(elf: &[u8]) -> Option<Vec<u8>> {
    let u16at = |o: usize| u16::from_le_bytes(elf[o..o + 2].try_into().unwrap()) as usize;
    let u32at = |o: usize| u32::from_le_bytes(elf[o..o + 4].try_into().unwrap()) as usize;
    let u64at = |o: usize| u64::from_le_bytes(elf[o..o + 8].try_into().unwrap()) as usize;
    assert!(&elf[..4] == b"\x7fELF" && elf[4] == 2 && elf[5] == 1);
    let (shoff, shentsize, shnum) = (u64at(0x28), u16at(0x3a), u16at(0x3c));
    for i in 0..shnum {
        let sh = shoff + i * shentsize;
        if u32at(sh + 4) != 7 {
            continue; // not SHT_NOTE
        }
        let (mut off, size) = (u64at(sh + 0x18), u64at(sh + 0x20));
        let end = off + size;
        while off + 12 <= end {
            let (namesz, descsz, ntype) = (u32at(off), u32at(off + 4), u32at(off + 8));
            let name = off + 12;
            let desc = name + ((namesz + 3) & !3);
            if ntype == 3 && &elf[name..name + namesz] == b"GNU\0" {
                return Some(elf[desc..desc + descsz].to_vec());
            }
            off = desc + ((descsz + 3) & !3);
        }
    }
    None
}

fn hex(b: &[u8]) -> String {
    b.iter().map(|x| format!("{x:02x}")).collect()
}

fn check(dir: &Path, file: &Path) {
    std::fs::write(dir.join("helper.c"), HELPER_C).unwrap();
    run(Command::new("gcc").arg(dir.join("helper.c")).arg("-o").arg(dir.join("helper")));
    let expected = build_id(&std::fs::read(file).unwrap()).expect("the file carries a build id");
    assert!(expected.iter().any(|b| *b != 0));

    let mut child = Command::new(dir.join("helper")).arg(file).stdout(Stdio::piped()).spawn().unwrap();
    let mut line = String::new();
    BufReader::new(child.stdout.take().unwrap()).read_line(&mut line).unwrap();
    let base = u64::from_str_radix(line.trim(), 16).unwrap();
    let pid = child.id() as i32;
    let mut out = tempfile::tempfile().unwrap();
    let result = MinidumpWriter::new(pid, pid).dump(&mut out);
    child.kill().unwrap();
    child.wait().unwrap();

    let dump = Minidump::read(result.expect("dump failed")).unwrap();
    let modules: MinidumpModuleList = dump.get_stream().unwrap();
    let listed: Vec<_> = modules.iter().filter(|m| m.base_address() == base).collect();
    assert_eq!(listed.len(), 1, "{file:?} mapped at {base:#x} is listed once");
    let got = listed[0].code_identifier().map(|c| c.to_string()).unwrap_or_default();
    println!("{file:?}: build id in the file {}, in the module record {got}", hex(&expected));
    assert_eq!(got, hex(&expected), "identifier of {file:?} mapped at {base:#x}");
}

#[test]
fn control_shared_object_mapped_as_data() {
    let tmp = tempfile::tempdir().unwrap();
    let dir = tmp.path();
    std::fs::write(dir.join("code.c"), CODE_C).unwrap();
    run(Command::new("gcc")
        .args(["-shared", "-fPIC", "-nostdlib", "-Wl,--build-id=sha1"])
        .arg(dir.join("code.c"))
        .arg("-o")
        .arg(dir.join("libcode.so")));
    check(dir, &dir.join("libcode.so"));
}

/// A kernel module is made exactly like this: `ld -r --build-id`.
#[test]
fn relocatable_object_mapped_as_data() {
    let tmp = tempfile::tempdir().unwrap();
    let dir = tmp.path();
    std::fs::write(dir.join("code.c"), CODE_C).unwrap();
    run(Command::new("gcc").args(["-c", "-fno-pic"]).arg(dir.join("code.c")).arg("-o").arg(dir.join("code.o")));
    run(Command::new("ld")
        .args(["-r", "--build-id=sha1"])
        .arg(dir.join("code.o"))
        .arg("-o")
        .arg(dir.join("code.ko")));
    check(dir, &dir.join("code.ko"));
}

#[test]
fn kernel_like_image_mapped_as_data() {
    let tmp = tempfile::tempdir().unwrap();
    let dir = tmp.path();
    std::fs::write(dir.join("code.c"), CODE_C).unwrap();
    std::fs::write(dir.join("image.lds"), KERNEL_LIKE_LDS).unwrap();
    run(Command::new("gcc")
        .args(["-nostdlib", "-static", "-no-pie", "-fno-pic", "-mcmodel=kernel", "-Wl,--build-id=sha1"])
        .arg(format!("-Wl,-T,{}", dir.join("image.lds").display()))
        .arg(dir.join("code.c"))
        .arg("-o")
        .arg(dir.join("image.elf")));
    check(dir, &dir.join("image.elf"));
}
