#!/bin/sh
# Run from the worktree root: audit/finding3/run.sh   (exit status non-zero = property violated)
set -u
cd "$(dirname "$0")/../.." || exit 2
cp audit/finding3/audit_data_mapped_elf.rs tests/audit_data_mapped_elf.rs
CARGO_NET_OFFLINE=true cargo test --offline --test audit_data_mapped_elf -- --nocapture --test-threads=1
status=$?
rm -f tests/audit_data_mapped_elf.rs
exit $status
