//! Audit finding 1: two different mapped ELF files that /proc/<pid>/maps shows under the same
//! name, and whose mappings happen to be adjacent, are folded into ONE module.
//!
//! Property clause: "Each file-backed group of mappings of the target that carries a non-zero
//! ELF build identifier is listed exactly once as a module whose base and size are the merged
//! extent of that file's mappings, whose debug record holds exactly the build id an independent
//! ELF reader finds in the file".
//!
//! A realistic way to get two files of one name: plug-ins loaded from memory with
//! memfd_create("plugin") + dlopen("/proc/self/fd/N"); every such file shows as
//! "/memfd:plugin (deleted)" whatever its inode. (Any two unlinked files that had the same path
//! give the same picture.)
//! The dynamic linker places consecutively loaded small libraries back to back, so the mappings
//! of the two files are adjacent without any help.
//!
//! The expectation is computed from /proc/<pid>/maps (groups keyed by device:inode) and from the
//! bytes of each mapped file as seen through /proc/<pid>/map_files, with a tiny ELF note reader
//! written here.

use minidump::*;
use minidump_writer::minidump_writer::MinidumpWriter;
use std::collections::BTreeMap;
use std::io::{BufRead, BufReader};
use std::path::Path;
use std::process::{Command, Stdio};

const HELPER_C: &str = r#"
#define _GNU_SOURCE
#include <dlfcn.h>
#include <fcntl.h>
#include <stdio.h>
#include <stdlib.h>
#include <string.h>
#include <sys/mman.h>
#include <unistd.h>

static void copy(int in, int out) {
    char buf[65536]; ssize_t n;
    while ((n = read(in, buf, sizeof buf)) > 0) if (write(out, buf, n) != n) exit(3);
}

/* usage: helper memfd|unlink SCRATCHDIR LIB... */
int main(int argc, char **argv) {
    for (int i = 3; i < argc; i++) {
        int in = open(argv[i], O_RDONLY);
        if (in < 0) { perror(argv[i]); return 1; }
        char p[4096];
        int fd;
        if (!strcmp(argv[1], "memfd")) {
            fd = memfd_create("plugin", 0);
            snprintf(p, sizeof p, "/proc/self/fd/%d", fd);
        } else {
            snprintf(p, sizeof p, "%s/plugin.so", argv[2]);
            fd = open(p, O_WRONLY | O_CREAT | O_EXCL, 0755);
        }
        if (fd < 0) { perror("create"); return 1; }
        copy(in, fd);
        close(in);
        if (!dlopen(p, RTLD_NOW)) { fprintf(stderr, "dlopen: %s\n", dlerror()); return 1; }
        if (strcmp(argv[1], "memfd")) { close(fd); unlink(p); }
    }
    puts("ready"); fflush(stdout);
    for (;;) pause();
}
"#;

fn run(cmd: &mut Command) {
    let out = cmd.output().expect("spawn");
    assert!(
        out.status.success(),
        "{:?} failed: {}",
        cmd,
        String::from_utf8_lossy(&out.stderr)
    );
}

fn build(dir: &Path) -> (std::path::PathBuf, Vec<std::path::PathBuf>) {
    std::fs::write(dir.join("helper.c"), HELPER_C).unwrap();
    let helper = dir.join("helper");
    run(Command::new("gcc").arg(dir.join("helper.c")).arg("-o").arg(&helper).arg("-ldl"));
    let mut libs = Vec::new();
    for (i, name) in ["one", "two"].iter().enumerate() {
        let src = dir.join(format!("{name}.c"));
        std::fs::write(&src, format!("int {name}_fn(int x) {{ return x + {i}; }}\n")).unwrap();
        let lib = dir.join(format!("lib{name}.so"));
        run(Command::new("gcc")
            .args(["-shared", "-fPIC", "-Wl,--build-id=sha1"])
            .arg(format!("-Wl,-soname,lib{name}.so.1"))
            .arg(&src)
            .arg("-o")
            .arg(&lib));
        libs.push(lib);
    }
    (helper, libs)
}

/// Independent reader: the descriptor of the first GNU build-id note found in a PT_NOTE segment
/// of a little-endian ELF64 file.
fn build_id(elf: &[u8]) -> Option<Vec<u8>> {
    let u16at = |o: usize| u16::from_le_bytes(elf[o..o + 2].try_into().unwrap()) as usize;
    let u32at = |o: usize| u32::from_le_bytes(elf[o..o + 4].try_into().unwrap()) as usize;
    let u64at = |o: usize| u64::from_le_bytes(elf[o..o + 8].try_into().unwrap()) as usize;
    if elf.len() < 64 || &elf[..4] != b"\x7fELF" || elf[4] != 2 || elf[5] != 1 {
        return None;
    }
    let (phoff, phentsize, phnum) = (u64at(0x20), u16at(0x36), u16at(0x38));
    for i in 0..phnum {
        let ph = phoff + i * phentsize;
        if ph + 56 > elf.len() || u32at(ph) != 4 {
            continue; // not PT_NOTE
        }
        let (mut off, size) = (u64at(ph + 8), u64at(ph + 32));
        let end = (off + size).min(elf.len());
        while off + 12 <= end {
            let (namesz, descsz, ntype) = (u32at(off), u32at(off + 4), u32at(off + 8));
            let name = off + 12;
            let desc = name + ((namesz + 3) & !3);
            if desc + descsz > end {
                break;
            }
            if ntype == 3 && &elf[name..name + namesz] == b"GNU\0" {
                return Some(elf[desc..desc + descsz].to_vec());
            }
            off = desc + ((descsz + 3) & !3);
        }
    }
    None
}

#[derive(Debug)]
struct Group {
    name: String,
    start: u64,
    end: u64,
    first_range: String, // "start-end" of the mapping of file offset 0
}

fn hex(b: &[u8]) -> String {
    b.iter().map(|x| format!("{x:02x}")).collect()
}

fn check(mode: &str) {
    let tmp = tempfile::tempdir().unwrap();
    let (helper, libs) = build(tmp.path());
    let scratch = tmp.path().join("scratch");
    std::fs::create_dir(&scratch).unwrap();

    let mut child = Command::new(&helper)
        .arg(mode)
        .arg(&scratch)
        .args(&libs)
        .stdout(Stdio::piped())
        .spawn()
        .unwrap();
    let mut line = String::new();
    BufReader::new(child.stdout.take().unwrap()).read_line(&mut line).unwrap();
    assert_eq!(line, "ready\n");
    let pid = child.id() as i32;

    // What the kernel says is mapped: file-backed groups keyed by device and inode.
    let maps = std::fs::read_to_string(format!("/proc/{pid}/maps")).unwrap();
    let mut groups: BTreeMap<(String, u64), Group> = BTreeMap::new();
    for l in maps.lines() {
        let f: Vec<&str> = l.splitn(6, ' ').collect();
        let inode: u64 = f[4].parse().unwrap();
        let name = f.get(5).map_or("", |n| n.trim_start());
        if inode == 0 || !name.contains("plugin") {
            continue;
        }
        let (s, e) = f[0].split_once('-').unwrap();
        let (s, e) = (u64::from_str_radix(s, 16).unwrap(), u64::from_str_radix(e, 16).unwrap());
        let off = u64::from_str_radix(f[2], 16).unwrap();
        let g = groups.entry((f[3].to_string(), inode)).or_insert(Group {
            name: name.to_string(),
            start: s,
            end: e,
            first_range: String::new(),
        });
        g.start = g.start.min(s);
        g.end = g.end.max(e);
        if off == 0 {
            g.first_range = f[0].to_string();
        }
    }
    // What an independent reader finds in each of these files.
    let mut expected = Vec::new();
    for ((dev, inode), g) in &groups {
        let bytes = std::fs::read(format!("/proc/{pid}/map_files/{}", g.first_range)).unwrap();
        let id = build_id(&bytes).expect("the mapped file carries a build id");
        println!(
            "mapped file {dev}:{inode} shown as {:?}: {:#x}-{:#x} build id {}",
            g.name, g.start, g.end, hex(&id)
        );
        expected.push((g.start, g.end, id));
    }

    let mut out = tempfile::tempfile().unwrap();
    let result = MinidumpWriter::new(pid, pid).dump(&mut out);
    child.kill().unwrap();
    child.wait().unwrap();

    assert_eq!(expected.len(), 2, "two different files are mapped:\n{maps}");
    let adjacent = expected[0].1 == expected[1].0 || expected[1].1 == expected[0].0;
    println!("mappings of the two files adjacent: {adjacent}");

    let dump = Minidump::read(result.expect("dump failed")).unwrap();
    let modules: MinidumpModuleList = dump.get_stream().unwrap();
    for m in modules.iter() {
        println!(
            "module {:#x}-{:#x} {:?} code id {:?}",
            m.base_address(),
            m.base_address() + m.size(),
            m.name,
            m.code_identifier().map(|c| c.to_string())
        );
    }

    let mut problems = Vec::new();
    for (start, end, id) in &expected {
        let listed: Vec<_> = modules
            .iter()
            .filter(|m| m.code_identifier().map(|c| c.to_string()) == Some(hex(id)))
            .collect();
        if listed.len() != 1 {
            problems.push(format!(
                "file with build id {} mapped at {start:#x}-{end:#x} is listed {} times",
                hex(id),
                listed.len()
            ));
            continue;
        }
        let m = listed[0];
        if m.base_address() != *start || m.base_address() + m.size() != *end {
            problems.push(format!(
                "module with build id {} covers {:#x}-{:#x}, the file's mappings cover {start:#x}-{end:#x}",
                hex(id),
                m.base_address(),
                m.base_address() + m.size()
            ));
        }
    }
    assert!(problems.is_empty(), "{}\n{maps}", problems.join("\n"));
}

#[test]
fn two_memfd_libraries_of_one_name() {
    check("memfd");
}
