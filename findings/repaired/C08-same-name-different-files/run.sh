#!/bin/sh
# Run from the worktree root: audit/finding1/run.sh   (exit status non-zero = property violated)
set -u
cd "$(dirname "$0")/../.." || exit 2
cp audit/finding1/audit_same_name_files.rs tests/audit_same_name_files.rs
CARGO_NET_OFFLINE=true cargo test --offline --test audit_same_name_files -- --nocapture --test-threads=1
status=$?
rm -f tests/audit_same_name_files.rs
exit $status
