#!/bin/sh
# Runs the demonstration from the worktree root. Exit status is non-zero when the property is
# violated (the test fails).
cd "$(dirname "$0")/../.." || exit 2
cp audit/finding1/audit_unbounded_stop_wait.rs tests/audit_unbounded_stop_wait.rs || exit 2
CARGO_NET_OFFLINE=true cargo test --offline --test audit_unbounded_stop_wait -- --nocapture --test-threads=1
status=$?
rm -f tests/audit_unbounded_stop_wait.rs
exit $status
