//! Audit finding 1: with an unlimited stop timeout the writer spins for ever in
//! `PtraceDumper::stop_process` when the target's thread-group leader can never show the state
//! `T (stopped)` -- here: a process whose initial thread has exited (a supported kind of target,
//! see "fix: dump a process whose initial thread has exited").
//!
//! Property clause: "for ... any caller configuration, a dump request returns a success or an
//! error value within bounded time. It never ... loops without bound".
#![cfg(all(target_os = "linux", target_arch = "x86_64"))]

use minidump_writer::minidump_writer::MinidumpWriter;
use std::{
    sync::mpsc,
    time::{Duration, Instant},
};

/// Forks a process whose initial thread exits (and stays around as a zombie) while a second
/// thread lives on. Returns (pid, tid of the living thread).
fn spawn_target_with_exited_initial_thread() -> (i32, i32) {
    let mut fds = [0i32; 2];
    assert_eq!(unsafe { libc::pipe(fds.as_mut_ptr()) }, 0);
    let pid = unsafe { libc::fork() };
    assert!(pid >= 0);
    if pid == 0 {
        // Child: the target.
        unsafe { libc::close(fds[0]) };
        let wfd = fds[1];
        std::thread::spawn(move || {
            let tid = unsafe { libc::syscall(libc::SYS_gettid) } as i32;
            let bytes = tid.to_ne_bytes();
            unsafe { libc::write(wfd, bytes.as_ptr().cast(), bytes.len()) };
            loop {
                unsafe { libc::pause() };
            }
        });
        // Give the thread time to report, then leave: only this (initial) thread exits.
        std::thread::sleep(Duration::from_millis(300));
        unsafe { libc::syscall(libc::SYS_exit, 0) };
        unreachable!();
    }
    unsafe { libc::close(fds[1]) };
    let mut buf = [0u8; 4];
    let n = unsafe { libc::read(fds[0], buf.as_mut_ptr().cast(), 4) };
    assert_eq!(n, 4, "target did not report its thread id");
    unsafe { libc::close(fds[0]) };
    let tid = i32::from_ne_bytes(buf);

    // Wait until the initial thread is a zombie.
    let deadline = Instant::now() + Duration::from_secs(10);
    loop {
        let stat = std::fs::read_to_string(format!("/proc/{pid}/stat")).unwrap();
        let state = stat.rsplit(')').next().unwrap().trim_start().chars().next();
        if state == Some('Z') {
            break;
        }
        assert!(Instant::now() < deadline, "initial thread did not exit");
        std::thread::sleep(Duration::from_millis(10));
    }
    (pid, tid)
}

fn kill_and_reap(pid: i32) {
    unsafe {
        libc::kill(pid, libc::SIGKILL);
        let mut status = 0;
        libc::waitpid(pid, &mut status, 0);
    }
}

/// Runs one dump request on a thread of its own, returns whether it came back in time (and how).
fn dump_with_deadline(pid: i32, tid: i32, stop_timeout: Option<Duration>, deadline: Duration) -> Option<String> {
    let (tx, rx) = mpsc::channel();
    std::thread::spawn(move || {
        let mut writer = MinidumpWriter::new(pid, tid);
        if let Some(t) = stop_timeout {
            writer.stop_timeout(t);
        }
        let mut out = std::io::Cursor::new(Vec::new());
        let started = Instant::now();
        let res = writer.dump(&mut out);
        let _ = tx.send(format!(
            "{} after {:?}",
            match res {
                Ok(v) => format!("Ok({} bytes)", v.len()),
                Err(e) => format!("Err({e:?})"),
            },
            started.elapsed()
        ));
    });
    rx.recv_timeout(deadline).ok()
}

#[test]
fn unlimited_stop_timeout_with_exited_initial_thread_returns() {
    let (pid, tid) = spawn_target_with_exited_initial_thread();

    // Control: the very same target is dumped fine with the default timeout ...
    let control = dump_with_deadline(pid, tid, None, Duration::from_secs(30));
    println!("default stop timeout: {control:?}");
    // ... and with a finite one the request takes exactly as long as the timeout, although all
    // living threads of the target were stopped after a millisecond.
    let finite = dump_with_deadline(pid, tid, Some(Duration::from_secs(2)), Duration::from_secs(30));
    println!("2 s stop timeout:     {finite:?}");

    // The configuration in question.
    let unlimited = dump_with_deadline(pid, tid, Some(Duration::MAX), Duration::from_secs(20));
    println!("Duration::MAX:        {unlimited:?}");

    kill_and_reap(pid);

    assert!(control.is_some(), "control dump did not return");
    assert!(finite.is_some(), "dump with a 2 s stop timeout did not return");
    assert!(
        unlimited.is_some(),
        "dump() with stop_timeout(Duration::MAX) had not returned after 20 s: \
         the writer polls /proc/<pid>/stat for state 'T', which the zombie initial thread never shows"
    );
}
