//! Audit C10, finding 1: a directory entry's stream TYPE is torn by a destination that takes
//! the four type bytes in pieces (or fails after taking some of them).
//!
//! The destination below is a plain in-memory file. It is legal in the `std::io::Write`
//! sense: `write` accepts a non-empty prefix of what it is given (here: one byte at a time
//! inside the header + directory area, everything at once elsewhere) and reports how much it
//! took. After every completed `write` call the bytes that have reached the destination are
//! checked against the property.
#![cfg(target_os = "linux")]

use minidump::{Minidump, MinidumpThreadList};
use minidump_writer::minidump_writer::MinidumpWriter;
use std::io::{Seek, SeekFrom, Write};

const HEADER_SIZE: usize = 32;
const DIRENT_SIZE: usize = 12;

fn u32_at(b: &[u8], off: usize) -> Option<u32> {
    b.get(off..off + 4)
        .map(|s| u32::from_le_bytes(s.try_into().unwrap()))
}

/// Checks one prefix. Returns a description of every used directory entry that does not refer
/// to a completely present stream of its type.
fn check_prefix(b: &[u8]) -> Vec<String> {
    let mut bad = Vec::new();
    let (Some(sig), Some(count), Some(dir_rva)) = (u32_at(b, 0), u32_at(b, 8), u32_at(b, 12))
    else {
        return bad; // header not there yet (first write still in progress)
    };
    if sig != 0x504d_444d {
        return bad;
    }
    let (count, dir_rva) = (count as usize, dir_rva as usize);
    if b.len() < dir_rva + count * DIRENT_SIZE {
        return bad; // directory not there yet (first write still in progress)
    }
    let present = |rva: u32, size: u32| (rva as u64 + size as u64) <= b.len() as u64;
    for i in 0..count {
        let e = dir_rva + i * DIRENT_SIZE;
        let ty = u32_at(b, e).unwrap();
        let size = u32_at(b, e + 4).unwrap();
        let rva = u32_at(b, e + 8).unwrap();
        if ty == 0 {
            continue; // unused
        }
        if !present(rva, size) {
            bad.push(format!("entry {i}: type {ty:#x} location {rva:#x}+{size:#x} beyond the {} bytes present", b.len()));
            continue;
        }
        let rva = rva as usize;
        // Does the entry refer to a stream of the type it names?
        let n = u32_at(b, rva).unwrap_or(0) as u128;
        let size64 = size as u128;
        let shape_ok = match ty {
            3 => {
                // MINIDUMP_THREAD_LIST: count + count * 48
                let ok = size64 == 4 + 48 * n;
                ok && (0..n as usize).all(|t| {
                    let th = rva + 4 + 48 * t;
                    present(u32_at(b, th + 36).unwrap(), u32_at(b, th + 32).unwrap())
                        && present(u32_at(b, th + 44).unwrap(), u32_at(b, th + 40).unwrap())
                })
            }
            4 => size64 == 4 + 108 * n, // MINIDUMP_MODULE_LIST
            5 => size64 == 4 + 16 * n,  // MINIDUMP_MEMORY_LIST
            6 => size == 168,                // MINIDUMP_EXCEPTION_STREAM
            7 => size == 56,                 // MINIDUMP_SYSTEM_INFO
            8 => size64 == 4 + 64 * n,  // MINIDUMP_THREAD_EX_LIST
            9 => size >= 16 && size64 == 16 + 16 * u64::from_le_bytes(b[rva..rva + 8].try_into().unwrap()) as u128,
            _ => true,
        };
        if !shape_ok {
            bad.push(format!(
                "entry {i}: type {ty:#x} location {rva:#x}+{size:#x} is not a stream of that type (first bytes {:?})",
                String::from_utf8_lossy(&b[rva..rva + (size as usize).min(16)])
            ));
        }
    }
    bad
}

/// In-memory file that accepts writes into the header/directory area one byte at a time.
struct PiecemealFile {
    data: Vec<u8>,
    pos: usize,
    dir_area: usize,
    ops: usize,
    violations: Vec<String>,
    /// What the `minidump` crate makes of the thread list in each prefix: Some(n) threads / None.
    reader_threads: Vec<(usize, Option<usize>)>,
    /// Report an I/O error for the write that starts at this offset.
    fail_at_pos: Option<usize>,
}

impl Write for PiecemealFile {
    fn write(&mut self, buf: &[u8]) -> std::io::Result<usize> {
        if buf.is_empty() {
            return Ok(0);
        }
        if self.fail_at_pos == Some(self.pos) && self.data.len() > self.dir_area {
            return Err(std::io::Error::other("injected: device error"));
        }
        let in_dir = self.pos < self.dir_area;
        let n = if in_dir { 1 } else { buf.len() };
        if self.data.len() < self.pos + n {
            self.data.resize(self.pos + n, 0);
        }
        self.data[self.pos..self.pos + n].copy_from_slice(&buf[..n]);
        self.pos += n;
        self.ops += 1;
        if in_dir && self.data.len() > self.dir_area {
            // A write operation on the directory has completed: check what has arrived.
            for v in check_prefix(&self.data) {
                self.violations.push(format!("after write op {}: {v}", self.ops));
            }
            let threads = Minidump::read(self.data.clone())
                .ok()
                .and_then(|d| d.get_stream::<MinidumpThreadList>().ok().map(|t| t.threads.len()));
            if self.reader_threads.last().map(|l| l.1) != Some(threads) {
                self.reader_threads.push((self.ops, threads));
            }
        }
        Ok(n)
    }
    fn flush(&mut self) -> std::io::Result<()> {
        Ok(())
    }
}

impl Seek for PiecemealFile {
    fn seek(&mut self, to: SeekFrom) -> std::io::Result<u64> {
        self.pos = match to {
            SeekFrom::Start(p) => p as usize,
            SeekFrom::Current(d) => (self.pos as i64 + d) as usize,
            SeekFrom::End(d) => (self.data.len() as i64 + d) as usize,
        };
        Ok(self.pos as u64)
    }
}

#[test]
fn type_of_a_directory_entry_is_not_torn() {
    let mut child = std::process::Command::new("sleep")
        .arg("1000")
        .stdin(std::process::Stdio::null())
        .stdout(std::process::Stdio::null())
        .stderr(std::process::Stdio::null())
        .spawn()
        .unwrap();
    let pid = child.id() as i32;
    std::thread::sleep(std::time::Duration::from_millis(200));

    let mut dest = PiecemealFile {
        data: Vec::new(),
        pos: 0,
        dir_area: HEADER_SIZE + 18 * DIRENT_SIZE,
        ops: 0,
        violations: Vec::new(),
        reader_threads: Vec::new(),
        fail_at_pos: None,
    };
    let res = std::panic::catch_unwind(std::panic::AssertUnwindSafe(|| {
        MinidumpWriter::new(pid, pid).dump(&mut dest)
    }));
    let _ = child.kill();
    let _ = child.wait();
    let image = res.expect("panic while dumping").expect("dump failed");
    assert_eq!(image, dest.data, "destination differs from the returned image");
    assert!(check_prefix(&dest.data).is_empty(), "the complete dump is fine");

    eprintln!("thread list as seen by the `minidump` crate, by write op: {:?}", dest.reader_threads);
    for v in &dest.violations {
        eprintln!("VIOLATION {v}");
    }
    assert!(
        dest.violations.is_empty(),
        "{} prefixes of the output hold a used directory entry that does not refer to a stream of its type",
        dest.violations.len()
    );
}

/// The same destination reports an I/O error after it has taken the first of the four type bytes
/// of the seventh entry (MD_LINUX_CPU_INFO, 0x47670003). The dump is aborted with an error, as it
/// should be; what it leaves behind must still be a consistent truncated minidump.
#[test]
fn io_error_inside_the_type_of_a_directory_entry() {
    let mut child = std::process::Command::new("sleep")
        .arg("1000")
        .stdin(std::process::Stdio::null())
        .stdout(std::process::Stdio::null())
        .stderr(std::process::Stdio::null())
        .spawn()
        .unwrap();
    let pid = child.id() as i32;
    std::thread::sleep(std::time::Duration::from_millis(200));

    let mut dest = PiecemealFile {
        data: Vec::new(),
        pos: 0,
        dir_area: HEADER_SIZE + 18 * DIRENT_SIZE,
        ops: 0,
        violations: Vec::new(),
        reader_threads: Vec::new(),
        fail_at_pos: Some(HEADER_SIZE + 6 * DIRENT_SIZE + 1),
    };
    let res = std::panic::catch_unwind(std::panic::AssertUnwindSafe(|| {
        MinidumpWriter::new(pid, pid).dump(&mut dest)
    }));
    let _ = child.kill();
    let _ = child.wait();
    let res = res.expect("panic while dumping");
    assert!(res.is_err(), "the injected error aborts the dump");

    let left = check_prefix(&dest.data);
    let dump = Minidump::read(dest.data.clone()).expect("header and directory are readable");
    let threads = dump.get_stream::<MinidumpThreadList>().map(|t| t.threads.len());
    eprintln!("aborted dump: {} bytes; thread list read by the `minidump` crate: {threads:?}", dest.data.len());
    for v in &left {
        eprintln!("VIOLATION in what the aborted dump left behind: {v}");
    }
    assert!(left.is_empty(), "the aborted dump holds a used directory entry that does not refer to a stream of its type");
    assert!(threads.is_ok(), "the thread list that was completely written is no longer readable");
}
