#!/bin/sh
# Run from the worktree root: sh audit/finding1/run.sh
# Exit status is non-zero when the property is violated (the tests fail).
set -u
cd "$(dirname "$0")/../.." || exit 2
cp audit/finding1/audit_c10_torn_type.rs tests/audit_c10_torn_type.rs
CARGO_NET_OFFLINE=true cargo test --offline --test audit_c10_torn_type -- --test-threads=1 --nocapture
status=$?
rm -f tests/audit_c10_torn_type.rs
exit $status
