#!/bin/sh
# Real-kernel demonstration of the C03 known finding `attach-stop-discarded-by-sigcont`. Run from the
# root of a checkout of minidump-writer:  sh /verif/findings/C03-sigcont-attach-hang/run.sh
# Exit status is non-zero when a request hangs (the test fails). Probabilistic: the SIGCONT has to land
# between PTRACE_ATTACH and the thread taking the SIGSTOP; with a SIGCONT every 30 us this happened
# within a few hundred requests on the kernel of this sandbox. Takes at most about 100 s.
here="$(cd "$(dirname "$0")" && pwd)"
T=sigcont_attach_hang
trap 'rm -f tests/$T.rs' EXIT INT TERM
cp "$here/$T.rs" tests/$T.rs || exit 2
CARGO_NET_OFFLINE=true cargo test --offline --test $T -- --nocapture --test-threads=1
