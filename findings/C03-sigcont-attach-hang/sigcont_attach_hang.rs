//! Real-kernel demonstration: a SIGCONT from outside that reaches the target between PTRACE_ATTACH
//! and the moment the thread takes the attach's SIGSTOP discards that SIGSTOP; the writer's wait for
//! the attach stop then never ends.
//!
//! One test, three roles (the test binary re-executes itself):
//!   ROLE=target         eight busy threads, runs until killed
//!   ROLE=dumper PID=..  dumps the target again and again, one line per finished request
//!   (no ROLE)           starts both, sends SIGCONT to the target every few dozen microseconds and
//!                       fails when the dumper stops making progress for 10 s
use std::io::{BufRead, BufReader, Write};
use std::process::{Command, Stdio};
use std::sync::atomic::{AtomicBool, Ordering};
use std::sync::{mpsc, Arc};
use std::time::{Duration, Instant};

fn role_target() -> ! {
    for _ in 0..8 {
        std::thread::spawn(|| {
            let mut x = 0u64;
            loop {
                x = x.wrapping_mul(6364136223846793005).wrapping_add(1);
                std::hint::black_box(x);
            }
        });
    }
    println!("ready");
    std::io::stdout().flush().unwrap();
    loop {
        std::thread::sleep(Duration::from_secs(1));
    }
}

fn role_dumper(pid: i32) -> ! {
    let out = std::io::stdout();
    for k in 0..100_000u32 {
        let mut dest = std::io::Cursor::new(Vec::new());
        let r = minidump_writer::minidump_writer::MinidumpWriter::new(pid, pid).dump(&mut dest);
        let mut o = out.lock();
        writeln!(o, "dump {} {}", k, if r.is_ok() { "ok" } else { "err" }).unwrap();
        o.flush().unwrap();
    }
    std::process::exit(0)
}

#[test]
fn sigcont_during_attach_does_not_hang_the_request() {
    match std::env::var("ROLE").as_deref() {
        Ok("target") => role_target(),
        Ok("dumper") => role_dumper(std::env::var("PID").unwrap().parse().unwrap()),
        _ => {}
    }
    let exe = std::env::current_exe().unwrap();
    let args = ["--exact", "sigcont_during_attach_does_not_hang_the_request", "--nocapture", "--test-threads=1"];
    let mut target = Command::new(&exe).args(args).env("ROLE", "target").stdout(Stdio::piped()).spawn().unwrap();
    let tpid = target.id() as i32;
    let mut tout = BufReader::new(target.stdout.take().unwrap());
    let mut line = String::new();
    loop {
        line.clear();
        tout.read_line(&mut line).unwrap();
        if line.trim().ends_with("ready") {
            break;
        }
    }
    let stop = Arc::new(AtomicBool::new(false));
    let s2 = stop.clone();
    let spam = std::thread::spawn(move || {
        while !s2.load(Ordering::Relaxed) {
            unsafe { libc::kill(tpid, libc::SIGCONT) };
            std::thread::sleep(Duration::from_micros(30));
        }
    });
    let mut dumper = Command::new(&exe).args(args).env("ROLE", "dumper").env("PID", tpid.to_string()).stdout(Stdio::piped()).stderr(Stdio::null()).spawn().unwrap();
    let dpid = dumper.id() as i32;
    let dout = BufReader::new(dumper.stdout.take().unwrap());
    let (tx, rx) = mpsc::channel::<String>();
    std::thread::spawn(move || {
        for l in dout.lines().map_while(Result::ok) {
            if l.contains("dump ") && tx.send(l).is_err() {
                break;
            }
        }
    });
    let t0 = Instant::now();
    let mut done = 0u32;
    let mut hang: Option<String> = None;
    while t0.elapsed() < Duration::from_secs(90) && done < 5000 {
        match rx.recv_timeout(Duration::from_secs(10)) {
            Ok(_) => done += 1,
            Err(_) => {
                // no request finished for 10 s (one takes a few milliseconds): collect what the kernel shows
                let mut ev = String::new();
                if let Ok(dir) = std::fs::read_dir(format!("/proc/{}/task", tpid)) {
                    for e in dir.flatten() {
                        let st = std::fs::read_to_string(e.path().join("status")).unwrap_or_default();
                        let pick = |k: &str| st.lines().find(|l| l.starts_with(k)).unwrap_or("").to_string();
                        ev.push_str(&format!("  thread {}: {} | {} | {}\n", e.file_name().to_string_lossy(), pick("State:"), pick("TracerPid:"), pick("SigPnd:")));
                    }
                }
                let wchan = std::fs::read_to_string(format!("/proc/{}/wchan", dpid)).unwrap_or_default();
                hang = Some(format!("after {} finished requests the next one did not return within 10 s (dumper {} waits in `{}`):\n{}", done, dpid, wchan, ev));
                break;
            }
        }
    }
    stop.store(true, Ordering::Relaxed);
    let _ = spam.join();
    unsafe {
        libc::kill(dpid, libc::SIGKILL);
        libc::kill(tpid, libc::SIGKILL);
    }
    let _ = dumper.wait();
    let _ = target.wait();
    println!("{} requests finished in {:?}", done, t0.elapsed());
    if let Some(h) = hang {
        panic!("dump request hangs under SIGCONT from outside: {}", h);
    }
}
