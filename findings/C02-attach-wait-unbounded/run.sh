#!/bin/sh
# Real-kernel demonstration of the C02 known finding. Run from the root of a checkout of
# minidump-writer:  sh /verif/findings/C02-attach-wait-unbounded/run.sh
# Exit status is non-zero when the property is violated (the test fails). Takes about 25 s.
here="$(cd "$(dirname "$0")" && pwd)"
T=audit_vfork_hang
trap 'rm -f tests/$T.rs' EXIT INT TERM
cp "$here/$T.rs" tests/$T.rs || exit 2
CARGO_NET_OFFLINE=true cargo test --offline --test $T -- --nocapture --test-threads=1
