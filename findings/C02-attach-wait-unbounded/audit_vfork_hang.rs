//! Audit finding 1: a dump of a process that has a thread waiting for a `vfork()` child never
//! returns (for as long as that child neither execs nor exits).
#![cfg(all(target_os = "linux", target_arch = "x86_64"))]

use minidump_writer::minidump_writer::MinidumpWriter;
use std::{
    io::Cursor,
    sync::mpsc,
    time::{Duration, Instant},
};

/// How long we are prepared to wait for `dump()`. The stop timeout of the writer is 100 ms, a
/// dump of this tiny target normally takes a few milliseconds.
const PATIENCE: Duration = Duration::from_secs(20);

fn proc_state(pid: i32) -> Option<char> {
    let stat = std::fs::read_to_string(format!("/proc/{pid}/stat")).ok()?;
    stat[stat.rfind(')')? + 1..].trim_start().chars().next()
}

/// Forks a target process whose only thread sits in the kernel waiting for a vfork child; the
/// vfork child simply sleeps. Returns (target pid, process group to kill for cleanup).
unsafe fn spawn_target_waiting_in_vfork() -> i32 {
    let target = libc::fork();
    assert!(target >= 0);
    if target == 0 {
        // Only async-signal-safe calls from here on.
        libc::setpgid(0, 0);
        libc::prctl(libc::PR_SET_PDEATHSIG, libc::SIGKILL);
        // vfork semantics (the caller is suspended until the child execs or exits) without
        // sharing the address space, so that this is safe to do from Rust.
        let child = libc::syscall(
            libc::SYS_clone,
            (libc::CLONE_VFORK | libc::SIGCHLD) as libc::c_ulong,
            0usize,
            0usize,
            0usize,
            0usize,
        );
        if child == 0 {
            // The "vfork child": something slow happens before its exec (here: nothing at all
            // happens). Do not outlive the test by much whatever happens.
            libc::alarm(300);
            loop {
                libc::pause();
            }
        }
        libc::_exit(0);
    }
    target
}

/// Describes what the thread running `dump()` is blocked in.
fn where_is_the_dumper(target: i32) -> String {
    let mut v = Vec::new();
    if let Ok(dir) = std::fs::read_dir("/proc/self/task") {
        for e in dir.flatten() {
            let comm = std::fs::read_to_string(e.path().join("comm")).unwrap_or_default();
            if comm.trim() != "dumper" {
                continue;
            }
            let sc = std::fs::read_to_string(e.path().join("syscall")).unwrap_or_default();
            let mut sc = sc.split(' ');
            let nr = sc.next().unwrap_or("?").to_string();
            let arg0 = sc
                .next()
                .and_then(|a| i64::from_str_radix(a.trim_start_matches("0x"), 16).ok());
            let wchan = std::fs::read_to_string(e.path().join("wchan")).unwrap_or_default();
            v.push(format!(
                "dumper thread blocked in syscall nr {nr} (61 = wait4) first argument {arg0:?} \
                 wchan {}",
                wchan.trim()
            ));
        }
    }
    let status = std::fs::read_to_string(format!("/proc/{target}/status")).unwrap_or_default();
    for l in status.lines().filter(|l| l.starts_with("TracerPid") || l.starts_with("State")) {
        v.push(format!("target {}", l.replace('\t', " ")));
    }
    v.join("; ")
}

#[test]
fn dump_of_process_with_thread_waiting_for_vfork_child_returns() {
    let target = unsafe { spawn_target_waiting_in_vfork() };

    // Wait until the target really is in the vfork wait ("D" in /proc/<pid>/stat)
    let t0 = Instant::now();
    while proc_state(target) != Some('D') {
        assert!(t0.elapsed() < Duration::from_secs(10), "target never reached the vfork wait");
        std::thread::sleep(Duration::from_millis(5));
    }
    println!(
        "target {target} state: {:?} (waiting for its vfork child)",
        proc_state(target)
    );

    let (tx, rx) = mpsc::channel();
    let started = Instant::now();
    let dumper = std::thread::Builder::new()
        .name("dumper".into())
        .spawn(move || {
            let mut out = Cursor::new(Vec::new());
            let res = MinidumpWriter::new(target, target).dump(&mut out);
            let _ = tx.send((
                res.map(|v| v.len()).map_err(|e| format!("{e:?}")),
                started.elapsed(),
            ));
        })
        .unwrap();

    let outcome = rx.recv_timeout(PATIENCE);
    let stuck = if outcome.is_err() {
        where_is_the_dumper(target)
    } else {
        String::new()
    };

    // Clean up: killing the vfork child (it is in the process group of the target) releases the
    // target, and with it the writer if it is still stuck.
    unsafe {
        libc::kill(-target, libc::SIGKILL);
    }
    let late = if outcome.is_err() {
        rx.recv_timeout(Duration::from_secs(30)).ok()
    } else {
        None
    };
    let _ = dumper.join();
    unsafe {
        libc::kill(target, libc::SIGKILL);
        let mut st = 0;
        libc::waitpid(target, &mut st, 0);
    }

    match outcome {
        Ok((res, took)) => println!("dump() returned {res:?} after {took:?}"),
        Err(_) => panic!(
            "dump() had not returned after {PATIENCE:?} (stop timeout is 100 ms); {stuck}; it only \
             came back once the vfork child was killed: {late:?}"
        ),
    }
}
