#!/bin/bash
# usage: tools/seeded.sh <agent-dir> <n> <name> <check ids...>
# Confirms a seeded change in the scratch worktree $MW (env MW, default /tmp/mw): applies <agent-dir>/seeded/patch<n>.diff, runs the repository's test
# suite, the agent's demonstration with and without the patch, then our checks against the patched tree (REPO=$MW).
ad="$1"; n="$2"; name="$3"; shift 3
patch="$ad/seeded/patch$n.diff"; demo="$ad/seeded/demo$n"
MW="${MW:-/tmp/mw}"
cd $MW && git checkout -q -- . && git clean -qfd -e target && git reset -q --hard "$(git -C /repo rev-parse HEAD)"
echo "== $name: demo WITHOUT patch"
rm -rf $MW/seeded; mkdir -p $MW/seeded; cp -r "$demo" $MW/seeded/ ; 
( cd $MW && sed -i "s#/tmp/agents[0-9]*/[A-Za-z0-9_]*#$MW#g" seeded/demo$n/run.sh; CARGO_NET_OFFLINE=true timeout 900 bash seeded/demo$n/run.sh >$MW/demo_clean.log 2>&1; echo "   demo exit (clean tree): $?" )
git apply "$patch" || { echo "PATCH DOES NOT APPLY"; exit 2; }
echo "== $name: test suite WITH patch"
( cd $MW && CARGO_NET_OFFLINE=true timeout 1200 cargo test --workspace --no-fail-fast --offline 2>&1 | grep -E "^test result|FAILED|failed|error(\[|:)" | head -12 )
echo "== $name: demo WITH patch"
( cd $MW && CARGO_NET_OFFLINE=true timeout 900 bash seeded/demo$n/run.sh >$MW/demo_patched.log 2>&1; echo "   demo exit (patched tree): $?" )
git -C $MW status --short | grep -v seeded | head -5
for id in "$@"; do
  out=$(cd /verif && REPO=$MW ./check "$id" quick 2>&1); rc=$?
  echo "== $name: check $id -> exit $rc; $(echo "$out" | grep '^mdsim: violation' | head -3 | cut -c1-260)"
done
cd $MW && git checkout -q -- . && git clean -qfd -e target
