#!/bin/bash
# usage: tools/mutant.sh <name> <python-edit-script-or-patch> <check ids...>
# Applies an edit to the scratch worktree $MW (default /tmp/mw3, a checkout of /repo HEAD), runs the given checks with REPO=$MW,
# prints per-check exit status, and restores the worktree.
name="$1"; edit="$2"; shift 2
MW="${MW:-/tmp/mw3}"
[ -d "$MW" ] || git -C /repo worktree add --detach "$MW" HEAD -q
cd "$MW" && git checkout -q -- . && git reset -q --hard "$(git -C /repo rev-parse HEAD)"
if [[ "$edit" == *.diff || "$edit" == *.patch ]]; then git apply "$edit" || { echo "MUTANT $name: patch does not apply"; exit 2; }
else python3 "$edit" || { echo "MUTANT $name: edit failed"; exit 2; }; fi
for id in "$@"; do
  out=$(cd /verif && REPO="$MW" VERIF_CASES="${VERIF_CASES:-}" ./check "$id" quick 2>&1); rc=$?
  echo "MUTANT $name check $id -> exit $rc $(echo "$out" | grep -c '^VIOLATION') violation line(s): $(echo "$out" | grep '^mdsim: violation' | head -2 | cut -c1-220)"
done
cd "$MW" && git checkout -q -- .
