#!/usr/bin/env python3
"""Regenerates section 8.7 of DESIGN.md (intro + table) from /verif/seeded/*/meta.json."""
import json, glob, os, re
rows = []
missed_first = 0
for d in sorted(glob.glob('/verif/seeded/*/')):
    name = os.path.basename(d.rstrip('/'))
    m = json.load(open(d + 'meta.json'))
    text = (m.get('confirmed_by_me') or '')
    strengthened = 'after strengthening' in text or 'MISSED' in text
    missed_first += strengthened
    summ = re.sub(r'\s+', ' ', m.get('summary', '')).replace('|', '/')[:140]
    rows.append(f"| {name} | {m['property']} | {', '.join(m.get('detected_by_checks', []))} | {'a check missed it; caught after strengthening' if strengthened else 'caught'} | {summ} |")
intro = f"""### 8.7 Seeded changes from independent sub-agents (`/verif/seeded/<name>/`)

Nine rounds of fresh sub-agents, each given only the text of one property and its own scratch worktree
(round 2 was steered towards timing / fallback / cleanup bugs, round 3 towards boundary and combination
bugs, rounds 4 and 5 (`R4-`, `R5-`) away from everything earlier rounds had produced,\nround 6 (`R6-`) towards the code that the audit-round fixes added or reworked: rarely seen but legal
kernel-visible states, error paths taken only after an earlier soft failure, integer widths, second
occurrences, round 7 (`R7-`) again towards the code of the last audit-wave fixes, with a list of every
earlier change to avoid; round 8 (`R8-`) the same for the fifth audit wave's fixes; round 9 (`R9-`, six changes on C04 C07 C10 C11 C19 C20: three caught at once, three after adding thread names that are not UTF-8 with an undisturbed-target clause to C04, the word across a misaligned stack pointer to C20, and a blamed thread that is not listed to C01/C10; regression of the 36 earlier seeds on the changed checks: exit 1 throughout). Every change was confirmed by `tools/seeded.sh` in a scratch worktree before being kept: the
patch applies to `/repo` HEAD, the repository's 42 tests still pass with it, the agent's demonstration passes
on the clean tree and fails with the patch. **{len(rows)} changes are kept; all are caught now** (last full regression of every kept change against the final machinery and `/repo` 597eae7: 194 check runs, 194 x exit 1). For {missed_first} of them
at least one check that should have caught the change missed it when first run (recorded in the
`meta.json`, with what was missing); the generator, the simulated kernel or the oracle was then
strengthened — never loosened — and the change is caught since. Two seeds (C03-cont-drops-signal,
C18-dso-name-strict-read) had to be re-expressed on the current code after a `fix:` commit touched the same
lines (original diff kept next to it); after the audit-round fixes eleven more (and later eleven again) were re-expressed the same way and six became
unreachable or equivalent and were retired to `/verif/seeded-retired/` with the reason (not counted here). After the fifth and sixth audit waves' fixes sixteen more seeds were re-expressed (stop wait, read strategies, mapping aggregation, directory entry) and eight demonstrations were adjusted because they had relied on behaviour the fixes changed (a stop that times out for a process with an exited leader; an entry's type appearing in one piece) - each with the earlier version kept next to it and the reason in its `meta.json`. A few changes are the same mistake found independently by two
agents (e.g. the UTF-16 length taken from `chars().count()`); they are kept as separate entries.
Three genuine defects of `/repo` were found on the way (C18 DSO name at a mapping end; C18 reads through
the process id with an exited leader; no mappings at all for a process with an exited leader), see 8.3.
What the misses of rounds 4 and 5 added to the simulator: threads in uninterruptible sleep and `WNOHANG`,
destinations beyond 4 GiB, zombies of a killed traced process, names that are not UTF-8 or outside the BMP,
a kill placed at a read of a given address, application memory that is mapped between two requests or lies
in pages the target cannot read, mappings and stacks below the executable, executable stacks, ET_EXEC
images, negative `si_code`. Round 7 added: images whose first segment is not page aligned (`ld -n`), a
reserved gap that follows no executable part, an old deleted image + gap + replacement, library text made
`PROT_NONE` from its second page on, a dump with one flush above 1 GiB (C01/C09/C10) and the image above
4 GiB in C10, with an overlap clause in the C10 prefix oracle. Round 8 added: version suffixes with a fourth
alphanumeric component, caller mappings whose `system_mapping_info` is left zeroed, a deleted program whose path
holds a different file with a SONAME, something readable mapped behind an overflowed stack (and the clause that a
stack region found above a guard ends in the mapping it begins in).

| seeded change | property | caught by | first run | what the change does |
|---|---|---|---|---|
"""
p = '/verif/DESIGN.md'
s = open(p).read()
i = s.index('### 8.7 Seeded changes')
open(p, 'w').write(s[:i] + intro + '\n'.join(rows) + '\n')
print(len(rows), 'rows,', missed_first, 'strengthened')
