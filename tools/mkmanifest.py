#!/usr/bin/env python3
"""Regenerates /verif/MANIFEST.json from the tables below."""
import json, os
V = os.path.dirname(os.path.dirname(os.path.abspath(__file__)))

TECH = "deterministic simulation with fault injection: real writer code run against a simulated kernel / target / clock / destination behind interposed libc symbols; seeded scenario search, oracle on each run, minimised replay file"

CLAIMED = {
 "C02": ("exploration", "3 C02", "Seeded search over hostile targets: crash-context and live-thread registers at boundary addresses (0, 1, top of the address space, last/first byte around a mapping, misaligned, vsyscall page), corrupted program headers / dynamic section / r_debug / link_map list (cyclic, dangling, names running off a mapping, invalid UTF-8), boundary auxv values and truncated auxv files, arbitrary thread-name bytes, hostile mapping names (multi-byte characters around .so. version components, /SYSV*, /dev/*, spaces, invalid UTF-8), odd status lines, hostile caller configuration, the process being killed at an arbitrary call, and realistic as well as exotic errno / short-transfer faults on every kernel call. Oracle: each request returns Ok or Err (no panic; a worker abort or wall-clock watchdog hit is confirmed by a single-index re-run), call/time budgets not exhausted (<= 2,000,000 simulated calls, <= 60 simulated seconds), no open/mmap of a path that is the name of a target mapping under /dev.", "Built with overflow checks and debug assertions on (as `cargo test` does), so arithmetic overflow is a panic. A tracee stuck in uninterruptible sleep (real waitpid would block) is not modelled; fabricated wait statuses are not generated."),
 "C03": ("fault_enumeration", "3 C03", "Base scenarios (1..16 threads, busy and parked, foreign tracer, stop succeeding / staggered / timing out / failing, 0..5 handler-type signals - standard and real-time, thread- and process-directed - sent at chosen phases: before the stop, while polling, during enumeration, at attach, between attach and wait, while suspended, while capturing, while writing, between detaches, before SIGCONT; thread exits; destination faults) plus a fault sweep over the recorded run: a state-neutral errno at each kernel call in turn (open/read/opendir/readdir/statx/stat/readlink/mmap/process_vm_readv/attach/GETREGSET/PEEKUSER, EINTR x1..3 on waitpid, EPERM on the stop), SIGKILL of the target at each ptrace/wait/read/destination call, a signal arriving at each ptrace-phase call, and error / panic / short write / EINTR at each destination call (48 sampled sweep runs per scenario in quick, 400 in thorough). Oracle after the request returned or unwound and the world ran fault-free for 200 steps: no live thread attached, in ptrace-stop or stopped, no group stop in force, no writer SIGSTOP pending, every sent signal delivered exactly once to the right live thread, nothing fabricated.", "Relative to the ptrace/signal/group-stop model of the simulated kernel; failures that imply a state change (ESRCH on cont/detach) are produced by really killing the target, never as a bare errno."),
 "C08": ("exploration", "3 C08", "1..12 synthetic ELF images (with/without GNU note, note only in a section, section table not mapped so that the id is only reachable from the file, with/without DT_SONAME, all-zero id) mapped as three contiguous lines each, at zero or non-zero file offset (archive case), present / deleted on disk, names with spaces, non-ASCII and .so.N suffixes, a non-ELF file mapping, a library below the executable (entry-point module not lowest), caller-supplied mappings containing / partially overlapping / disjoint. Oracle = module-list model built from the world with an independent ELF reader (/verif/sim/src/elfref.rs).", "Grouping = maximal runs of contiguous same-name lines (reserved-gap merging, C13's subject, is not generated); images whose memory copy and file disagree about the id are not generated; extra modules that really hold an ELF image (vDSO) are allowed."),
 "C14": ("exploration", "3 C14", "I/O-facing part of the statement: ELF images (well-formed variants, structure-aware corruptions of every ELF/program/section/note/dynamic header field with boundary values, random and truncated byte strings) are delivered through both seams - target memory via the process reader (with EIO / EFAULT / short reads injected at a chosen read) and the file via open + mmap (missing file, mmap failure, EMFILE). Oracle: no panic, no budget exhaustion; on well-formed images build id and SONAME equal the independent reader's and memory/file answers agree.", "The first two clauses have no schedule or fault in them; for those the simulator is the delivery vehicle and the strength is that of seeded generation against a reference reader. Installed ELF files are not enumerated; 32-bit images are not generated."),
 "C18": ("exploration", "3 C18", "Targets with arbitrary cmdline/environ bytes (empty, unterminated, 100 KiB), extra auxv keys, 0..40 descriptors of every kind incl. non-UTF-8 and deleted paths and one vanishing mid-listing, shared and odd-permission mappings, cpuinfo variants (1..255 processors, field order, vendor lengths), linker lists of 0..12 objects reachable through the kernel's auxv, through caller-supplied values, through a mix, and through caller-supplied values that lead to a different list; short reads. Oracle compares each stream with what the simulated kernel holds while the target is stopped.", "cpuinfo text is rendered from the generator's machine description (tag cpu:...), which is the oracle's ground truth for family/model/stepping/vendor/count."),
 "C11": ("fault_enumeration", "3 C11", "All 32 subsets of the five fail points x {1,2,5,24} threads x crash context on/off (indices 0..255, enumerated), then natural failures of each best-effort step injected through the kernel seam singly and in pairs (stop EPERM / timeout, auxv missing / truncated, unreadable names, attach EPERM / ESRCH for some or all threads, cpuinfo open error / missing fields, each copied /proc or release file failing at the open that feeds the raw stream, AT_PHDR absent / unreadable, unreadable r_debug, fd directory unreadable). Oracle: dump Ok; structure sound (C01 oracle); soft-error stream present, JSON list, empty when nothing failed, the step's key present for every injected failure, one ReadThreadNameFailed per name the kernel could not deliver; every stream not touched by the failure equals the failure-free twin's stream (offset-independent digest).", "Mapping from injected failure to the expected JSON key and to the set of legitimately affected streams is part of the generator (tags expect:/affects:)."),
 "C17": ("exploration", "3 C17", "Boundary grid first (8 source alignments x 22 lengths {1..17, 4095..4097, 65535, 65536} x positions {inside, ending at the end of, crossing the end of a readable run} x 4 strategies), then random (src, len) over an address space with readable runs, a PROT_NONE run and holes; the auto-probing reader with the earlier strategies failing by fault. Oracle: fully readable range => Ok(len) and bytes == simulated memory; otherwise Err or a prefix of the true bytes, never other data.", "Read-call semantics of the simulated kernel (measured on this sandbox's kernel: process_vm_readv honours protections and returns partial counts, /proc/pid/mem and PEEKDATA use FOLL_FORCE)."),
 "C04": ("exploration", "3 C04", "Seeded search over thread sets (1..64 threads, field-unique register values, sandbox and foreign-traced threads), thread exits placed by trigger at every phase (before/during enumeration, at the name read, between attaches, between attach and wait), stop behaviour (fail point, late, staggered) and busy threads stepped 1..7 micro-steps per writer call. Oracle: completeness, no duplicates, every context field equals the simulated kernel's register state while stopped, and the kernel-side single-instant invariant (no listed thread executed between its register read and the last remote memory read) plus the three-counter content check.", "ptrace / group-stop / signal model of the simulated kernel."),
 "C05": ("exploration", "3 C05", "Crash contexts with field-unique general, flag, segment and x87/SSE values and siginfo; blamed thread = main / other / exiting before attach / never existing / present but not attachable (foreign tracer, sandbox thread); with and without crash context. Decoder compares exception record and both contexts field by field.", "Strict decoder; dumps that fail as a whole (blamed thread without /proc entry) give no image to judge."),
 "C06": ("exploration", "3 C06", "Exhaustive sweep of all 512 word-aligned in-page stack-pointer offsets under three size-limit classes (indices 0..1535), then random: unaligned SPs, SP in the guard page / 2..255 pages below / beyond the guard distance, stack sizes 1..64 pages, 1..64 threads (list positions >= 20), crash-context thread at a late position. Oracle = stack-region model from the statement; bytes from SP upward compared with simulated memory.", "Byte equality asserted with sanitize off; exact-limit guard distance (256/257 pages) not generated."),
 "C07": ("exploration", "3 C07", "0..8 application regions (length 1 B..1 MiB, any alignment, ending at / one byte before a mapping end next to a hole), crash IP at mapping start, +127, +128, end-128, end-1, unmapped, inside; every descriptor's bytes compared with simulated memory as of the capture window; presence of app regions, stacks and the clipped IP window.", "Region presence is demanded for regions wholly readable by process_vm_readv."),
 "C15": ("exploration", "3 C15", "All 2^n unreadable-name patterns for n <= 6 threads (126 patterns, indices 0..125) then random up to 32 threads; unreadable = ENOENT / EACCES / EIO on read / invalid UTF-8; names of length 0..15 with non-ASCII and leading/trailing whitespace; short reads. Expected names come from the bytes the simulated kernel actually served.", "Strict decoder."),
 "C20": ("exploration", "3 C20", "1..24 threads, each with its IP inside / at the end address of / outside the principal mapping and a pointer planted at SP, at the last word, below SP only, unaligned only, equal to the start / end address, or nowhere; unaligned SPs; principal address in a module, unmapped, unset; with and without crash context. Oracle = filter model from the statement (half-open mapping range).", "Size limit and sanitize are off in this profile."),
 "C09": ("fault_enumeration", "3 C09", "Two workloads. (a) whole dumps under a destination plan (start offset, pre-existing content, short writes, EINTR, hard errors, panics at a chosen destination call) compared with the logical write history of the fault-free twin run: after success destination == pre-existing bytes overlaid with the returned image, after an abort destination == a prefix of that write history; (b) seeded operation sequences on the directory-section writer against a 30-line reference model. Faults are placed at sampled destination calls, not all of them in every run.", "Determinism of the simulation (twin runs); reference model of the directory writer in /verif/sim/src/workloads.rs accepts either order of (entry write, append) within one flush."),
 "C10": ("fault_enumeration", "3 C10", "For each generated scenario every boundary between two consecutive destination calls of the recorded run is a crash point (exhaustive within the run), and a hard error is injected at destination calls in turn (every third call in quick, every call in thorough); the surviving bytes are decoded in prefix mode: header + full directory present, every non-zero entry and everything it references already present.", "Strict decoder; one write_all == one destination call (no short writes in this profile)."),
 "C19": ("exploration", "3 C19", "Histories of 2..5 requests on one writer (world evolving between requests, some requests failing); before each request the simulated world is cloned and a freshly configured writer dumps the clone: images, destinations and kernel call sequences must be identical.", "Forkable deterministic world (Kernel: Clone); equality is byte-exact including the timestamp because the simulated clock is cloned too."),
 "C01": ("exploration", "3 C01", "Seeded search over target states x writer options x benign faults; every successful image is decoded by an independent strict decoder (sizes, placements, interval-overlap sweep). Evidence of absence over the sampled space, not a proof.", "Strict decoder (/verif/sim/src/decode.rs) and its size table (cross-checked at start-up against minidump-common); simulated procfs content generators."),
}

NA = {
 "C12": "pure function of (mapping list, stack bytes, stack pointer): no schedule, clock, fault or interleaving can change its result, so deterministic simulation has nothing to decide (its only seam-reachable failure, a panic on a short stack copy, is covered under C02)",
 "C13": "pure function of the parsed memory-map text and one address: no schedule, fault or I/O in the property",
 "C16": "sequential in-memory data structure with no I/O, time or sharing; the part that meets a seam (directory writer vs a faulty destination) is checked under C09 and any law violation reaching a dump surfaces under C01",
}
PENDING = {}

def main():
    props = [json.loads(l) for l in open(os.path.join(V, "properties.jsonl"))]
    checks = []
    na = []
    for p in props:
        i = p["id"]
        if i in CLAIMED:
            cat, ref, text, note = CLAIMED[i]
            checks.append({
                "property_id": i,
                "quick_cmd": f"./check {i} quick",
                "thorough_cmd": f"./check {i} thorough",
                "evidence_file": f"/verif/evidence/{i}.json",
                "replay_cmd_template": "./check --replay {path}",
                "engine": "mdsim",
                "level_claimed": {"category": cat, "text": text, "design_ref": "DESIGN.md section " + ref},
                "level_note": note,
                "technique": TECH,
            })
        elif i in NA:
            na.append({"property_id": i, "reason": NA[i]})
        else:
            na.append({"property_id": i, "reason": PENDING.get(i, "check not built yet in this round (planned: see DESIGN.md section 3); not claimed until its quick command exists and is clean on the unchanged tree")})
    m = {
        "version": 1,
        "setup_cmd": "cd /verif/sim && CARGO_NET_OFFLINE=true cargo build --offline && cd /verif && ./check selftest",
        "hooks": {
            "guard": "none: no source hooks in /repo. The only compile-time switch is failspot's own cargo feature `failspot/enabled`, turned on by cargo feature unification from the harness crate /verif/sim (Cargo.toml there); /repo/Cargo.toml and Cargo.lock are untouched",
            "enable": "cd /verif/sim && cargo build --offline   (path dependency on /repo; `REPO=<dir> ./check ...` builds against another checkout)",
            "baseline_off_cmd": "cd /repo && cargo test --workspace --no-fail-fast --offline",
            "source_commits": [],
            "add_only": True,
        },
        "engines": [{
            "name": "mdsim",
            "path": "/verif/sim",
            "serves_properties": sorted(CLAIMED.keys()),
            "kind_free_text": "single-process deterministic simulator: libc-symbol interposition (open/read/pread/close/statx/stat/readlink/opendir/readdir/closedir/mmap64/ptrace/waitpid/kill/process_vm_readv/clock_gettime/clock_nanosleep/sysconf/uname) + simulated kernel + fault-injecting Write+Seek destination + strict minidump decoder + per-property oracles + structural shrinker",
        }],
        "checks": checks,
        "not_applicable": na,
        "notes": "Exit codes: 0 clean, 1 with a line `VIOLATION property=<id> replay=<path>`, 2 harness error. VERIF_SEED selects the seed (default 1). Known findings: /verif/known_findings.json.",
    }
    json.dump(m, open(os.path.join(V, "MANIFEST.json"), "w"), indent=1)
    print("claimed:", sorted(CLAIMED.keys()))

main()
