#!/usr/bin/env python3
"""keep_seeded.py <agent-dir> <n> <name> <property> <caught-by or NONE> <what-I-ran/observed>"""
import json, os, shutil, sys
ad, n, name, prop, caught, ran = sys.argv[1:7]
dst = f"/verif/seeded/{name}"
os.makedirs(dst, exist_ok=True)
shutil.copy(f"{ad}/seeded/patch{n}.diff", f"{dst}/patch.diff")
if os.path.isdir(f"{dst}/demo"):
    shutil.rmtree(f"{dst}/demo")
shutil.copytree(f"{ad}/seeded/demo{n}", f"{dst}/demo")
agent_meta = {}
try:
    m = json.load(open(f"{ad}/seeded/meta.json"))
    for e in m:
        if e.get("patch") == f"patch{n}.diff":
            agent_meta = e
except Exception as e:
    agent_meta = {"note": f"agent meta unreadable: {e}"}
meta = {
    "property": prop,
    "origin": "independent sub-agent given only the property text and a scratch worktree",
    "summary": agent_meta.get("summary", ""),
    "needs_to_manifest": agent_meta.get("needs", ""),
    "agent_verification": agent_meta.get("verified", ""),
    "confirmed_by_me": ran,
    "detected_by_checks": [] if caught == "NONE" else caught.split(","),
    "apply": "git -C /repo apply /verif/seeded/%s/patch.diff ; run checks ; git -C /repo checkout -- ." % name,
}
json.dump(meta, open(f"{dst}/meta.json", "w"), indent=1)
print("kept", dst)
