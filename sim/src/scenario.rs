//! Scenario = replay file. A self-contained description of world, workload, events, faults and
//! scheduler parameters. Executing a scenario is a pure function of (scenario, code under test).

use serde::{Deserialize, Serialize};

/// Byte string with compact JSON form: "s:<ascii>" when printable, else "x:<hex>".
#[derive(Clone, Debug, Default, PartialEq, Eq, PartialOrd, Ord)]
pub struct B(pub Vec<u8>);

impl B {
    pub fn s(s: &str) -> B {
        B(s.as_bytes().to_vec())
    }
    pub fn lossy(&self) -> String {
        String::from_utf8_lossy(&self.0).into_owned()
    }
}

impl Serialize for B {
    fn serialize<S: serde::Serializer>(&self, ser: S) -> Result<S::Ok, S::Error> {
        let printable = self
            .0
            .iter()
            .all(|&c| (0x20..0x7f).contains(&c) && c != b'\\' && c != b'"');
        if printable {
            let mut s = String::with_capacity(self.0.len() + 2);
            s.push_str("s:");
            s.push_str(std::str::from_utf8(&self.0).unwrap());
            ser.serialize_str(&s)
        } else {
            let mut s = String::with_capacity(self.0.len() * 2 + 2);
            s.push_str("x:");
            for b in &self.0 {
                s.push_str(&format!("{:02x}", b));
            }
            ser.serialize_str(&s)
        }
    }
}

impl<'de> Deserialize<'de> for B {
    fn deserialize<D: serde::Deserializer<'de>>(de: D) -> Result<B, D::Error> {
        let s = String::deserialize(de)?;
        if let Some(rest) = s.strip_prefix("s:") {
            Ok(B(rest.as_bytes().to_vec()))
        } else if let Some(rest) = s.strip_prefix("x:") {
            let r = rest.as_bytes();
            if r.len() % 2 != 0 {
                return Err(serde::de::Error::custom("odd hex"));
            }
            let mut v = Vec::with_capacity(r.len() / 2);
            for i in (0..r.len()).step_by(2) {
                let h = u8::from_str_radix(&rest[i..i + 2], 16)
                    .map_err(|_| serde::de::Error::custom("bad hex"))?;
                v.push(h);
            }
            Ok(B(v))
        } else {
            Err(serde::de::Error::custom("bad byte string"))
        }
    }
}

// ---------------------------------------------------------------------------------------------
// user_regs_struct indices (x86_64)
pub const R_R15: usize = 0;
pub const R_R14: usize = 1;
pub const R_R13: usize = 2;
pub const R_R12: usize = 3;
pub const R_RBP: usize = 4;
pub const R_RBX: usize = 5;
pub const R_R11: usize = 6;
pub const R_R10: usize = 7;
pub const R_R9: usize = 8;
pub const R_R8: usize = 9;
pub const R_RAX: usize = 10;
pub const R_RCX: usize = 11;
pub const R_RDX: usize = 12;
pub const R_RSI: usize = 13;
pub const R_RDI: usize = 14;
pub const R_ORIG_RAX: usize = 15;
pub const R_RIP: usize = 16;
pub const R_CS: usize = 17;
pub const R_EFLAGS: usize = 18;
pub const R_RSP: usize = 19;
pub const R_SS: usize = 20;
pub const R_FS_BASE: usize = 21;
pub const R_GS_BASE: usize = 22;
pub const R_DS: usize = 23;
pub const R_ES: usize = 24;
pub const R_FS: usize = 25;
pub const R_GS: usize = 26;
pub const NREGS: usize = 27;

#[derive(Serialize, Deserialize, Clone, Debug, PartialEq)]
pub enum Program {
    /// blocked in a syscall forever (interruptible)
    Parked,
    /// each step performs, in order: r12 += 1 ; [stack_slot] = r12 ; [app_word] = r12
    Spinner { stack_slot: u64, app_word: u64 },
}

#[derive(Serialize, Deserialize, Clone, Debug)]
pub struct ThreadSpec {
    pub tid: i32,
    pub comm: B,
    pub regs: Vec<u64>,
    pub fp: B,
    pub dregs: Vec<u64>,
    pub program: Program,
    #[serde(default)]
    pub foreign_tracer: bool,
    #[serde(default)]
    pub zombie: bool,
    /// delay (ns of simulated time) before a process-wide stop reaches this thread
    #[serde(default)]
    pub stop_latency_ns: u64,
    /// comm file cannot be read as text: None | "enoent" | "eacces" | "eio"
    #[serde(default)]
    pub comm_fault: Option<String>,
    /// the thread sits in an uninterruptible wait (state D) until this simulated time: it neither
    /// runs nor takes signals (and so does not stop) before
    #[serde(default)]
    pub blocked_until_ns: u64,
    /// the thread executes 32-bit code (code segment 0x23: a 32-bit program, or a 64-bit program that
    /// jumped into the compatibility segment): PTRACE_GETREGSET hands out the 32-bit register layouts
    /// (68 / 108 bytes) and says so in iov_len; PTRACE_GETREGS / GETFPREGS still give the native ones
    #[serde(default)]
    pub compat32: bool,
}

#[derive(Serialize, Deserialize, Clone, Debug, PartialEq)]
pub enum Content {
    Zero,
    /// every aligned 8-byte word = 0xA5 in the top byte + mix(addr, seed): never a canonical pointer
    Pattern(u64),
    /// bytes at the region start, zero fill afterwards
    Bytes(B),
}

#[derive(Serialize, Deserialize, Clone, Debug)]
pub struct RegionSpec {
    pub start: u64,
    pub len: u64,
    /// four characters as in /proc/pid/maps, e.g. "r-xp"
    pub perms: String,
    pub offset: u64,
    pub inode: u64,
    /// empty = anonymous; otherwise the raw name (path or [pseudo])
    pub name: B,
    #[serde(default)]
    pub deleted: bool,
    pub content: Content,
}

impl RegionSpec {
    pub fn end(&self) -> u64 {
        self.start + self.len
    }
    pub fn readable(&self) -> bool {
        self.perms.as_bytes()[0] == b'r'
    }
}

#[derive(Serialize, Deserialize, Clone, Debug)]
pub struct FileSpec {
    pub path: B,
    pub content: B,
    pub mode: u32,
}

#[derive(Serialize, Deserialize, Clone, Debug)]
pub struct FdSpec {
    pub fd: u32,
    pub target: B,
    pub mode: u32,
    #[serde(default)]
    pub stat_fails: bool,
    #[serde(default)]
    pub link_fails: bool,
}

#[derive(Serialize, Deserialize, Clone, Debug, Default)]
pub struct World {
    pub pid: i32,
    pub ppid: i32,
    pub threads: Vec<ThreadSpec>,
    pub regions: Vec<RegionSpec>,
    /// sparse word overlay on top of region contents: (address, 8 bytes little endian)
    pub plants: Vec<(u64, u64)>,
    /// address ranges (start, length) inside mapped regions that no remote-read strategy can read,
    /// whatever the map says: guard pages installed with madvise(MADV_GUARD_INSTALL) inside an rw-
    /// mapping (glibc >= 2.42 guards thread stacks that way; /proc/pid/maps shows nothing), the
    /// [vsyscall] page
    #[serde(default)]
    pub no_remote: Vec<(u64, u64)>,
    pub files: Vec<FileSpec>,
    pub fds: Vec<FdSpec>,
    /// (key, value) pairs served in /proc/pid/auxv
    pub auxv: Vec<(u64, u64)>,
    /// append AT_NULL terminator
    pub auxv_terminated: bool,
    /// number of bytes cut from the end of the auxv file
    #[serde(default)]
    pub auxv_cut: u64,
    /// auxv file missing
    #[serde(default)]
    pub auxv_missing: bool,
    pub cmdline: B,
    pub environ: B,
    pub limits: B,
    pub cpuinfo: Option<B>,
    pub lsb_release: Option<B>,
    pub os_release: Option<B>,
    /// sysname, release, version, machine
    pub uname: Vec<String>,
    #[serde(default)]
    pub uname_fails: bool,
    /// /proc/pid/fd cannot be opened
    #[serde(default)]
    pub fd_dir_fails: bool,
    /// extra lines in status before the Tgid line ... (raw override of status text body)
    #[serde(default)]
    pub status_extra: B,
}

#[derive(Serialize, Deserialize, Clone, Copy, Debug, PartialEq, Eq, PartialOrd, Ord, Hash)]
pub enum CallKind {
    Open,
    Read,
    Pread,
    Close,
    Lseek,
    Statx,
    Stat,
    Readlink,
    Opendir,
    Readdir,
    Closedir,
    Mmap,
    PtraceAttach,
    PtraceDetach,
    PtraceCont,
    PtraceGetregset,
    PtraceGetregs,
    PtraceGetfpregs,
    PtracePeekuser,
    PtracePeekdata,
    PtraceOther,
    Waitpid,
    Kill,
    Vmreadv,
    ClockGettime,
    Nanosleep,
    Sysconf,
    Uname,
    DestWrite,
    DestSeek,
    DestFlush,
    /// pseudo call issued by the harness between dumps / at end of run
    Harness,
}

pub const N_CALLKINDS: usize = 32;

#[derive(Serialize, Deserialize, Clone, Debug, PartialEq)]
pub struct Trigger {
    pub kind: CallKind,
    /// 0-based index among calls of this kind (matching `path` if given)
    pub nth: u32,
    /// substring filter on the call's path / description
    #[serde(default)]
    pub path: Option<String>,
}

#[derive(Serialize, Deserialize, Clone, Debug, PartialEq)]
pub enum EventKind {
    ThreadExit { tid: i32 },
    SignalThread { tid: i32, signo: i32, id: u32 },
    SignalProcess { signo: i32, id: u32 },
    KillProcess,
    WriteMem { addr: u64, val: u64 },
    /// set thread's comm
    Rename { tid: i32, comm: B },
    /// a file descriptor of the target is closed
    CloseFd { fd: u32 },
    /// thread spawn (cloned from thread 0 with new tid)
    Spawn { tid: i32 },
    /// every memory-map line with this name disappears (dlclose / munmap)
    UnmapNamed { name: B },
    /// another process attaches to (or detaches from) this thread with ptrace
    ForeignTracer { tid: i32, on: bool },
    /// the target maps a new anonymous read-write region
    MapAnon { start: u64, len: u64, seed: u64 },
    /// somebody sends SIGCONT to the target (a shell's `fg`, a supervisor's `kill -CONT`): whatever its
    /// disposition, generating it ends a group stop and discards every pending stop signal
    ContinueProcess,
}

#[derive(Serialize, Deserialize, Clone, Debug, PartialEq)]
pub struct Event {
    pub trig: Trigger,
    pub what: EventKind,
}

#[derive(Serialize, Deserialize, Clone, Debug, PartialEq)]
pub enum Effect {
    /// fail the call with this errno
    Errno(i32),
    /// transfer at most this many bytes (read / pread / vmreadv)
    Short(u64),
    /// waitpid: report this raw status instead (exotic)
    Status(i32),
}

#[derive(Serialize, Deserialize, Clone, Debug, PartialEq)]
pub struct FaultRule {
    pub trig: Trigger,
    pub effect: Effect,
    /// how many consecutive matching calls it applies to (default 1)
    #[serde(default = "one")]
    pub times: u32,
    /// realistic (a correct kernel can do this) or exotic
    #[serde(default)]
    pub exotic: bool,
}
fn one() -> u32 {
    1
}

#[derive(Serialize, Deserialize, Clone, Debug)]
pub struct Sched {
    /// program steps each runnable target thread executes per writer call
    pub steps_per_call: u32,
    pub call_cost_ns: u64,
    /// pending-signal dequeue order for thread-directed standard signals: lowest number first
    /// (otherwise arrival order); both occur on a real kernel depending on timing
    pub sig_lowest_first: bool,
    pub max_calls: u64,
    pub max_ns: u64,
    /// global cap on bytes per read()/pread() result for procfs/regular files (0 = unlimited)
    #[serde(default)]
    pub read_chunk: u64,
}

impl Default for Sched {
    fn default() -> Self {
        Sched {
            steps_per_call: 1,
            call_cost_ns: 1_000,
            sig_lowest_first: true,
            max_calls: 2_000_000,
            max_ns: 60_000_000_000,
            read_chunk: 0,
        }
    }
}

// ---------------------------------------------------------------------------------------------
// workloads

#[derive(Serialize, Deserialize, Clone, Debug, Default)]
pub struct FpSpec {
    pub cwd: u16,
    pub swd: u16,
    pub ftw: u16,
    pub fop: u16,
    pub rip: u64,
    pub rdp: u64,
    pub mxcsr: u32,
    pub mxcr_mask: u32,
    pub st: Vec<u32>,
    pub xmm: Vec<u32>,
}

#[derive(Serialize, Deserialize, Clone, Debug, Default)]
pub struct CrashSpec {
    /// 23 gregs in ucontext order
    pub gregs: Vec<i64>,
    pub fp: FpSpec,
    pub signo: u32,
    pub code: i32,
    pub addr: u64,
    pub tid: i32,
}

#[derive(Serialize, Deserialize, Clone, Debug, Default)]
pub struct UserMapSpec {
    /// the caller left `system_mapping_info` zeroed (only base and size describe the range)
    #[serde(default)]
    pub sysinfo_zeroed: bool,
    pub start: u64,
    pub size: u64,
    pub offset: u64,
    pub perms: String,
    pub name: Option<B>,
    pub identifier: B,
}

#[derive(Serialize, Deserialize, Clone, Debug, Default)]
pub struct Opts {
    pub blamed: i32,
    pub crash: Option<CrashSpec>,
    pub size_limit: Option<u64>,
    pub sanitize: bool,
    pub skip_unref: bool,
    pub principal: Option<u64>,
    pub app_memory: Vec<(u64, u64)>,
    pub user_mappings: Vec<UserMapSpec>,
    /// phnum, phdr, gate, entry
    pub direct_auxv: Option<Vec<u64>>,
    pub stop_timeout_ms: Option<u64>,
    /// bit i = FailSpotName i enabled (StopProcess, FillMissingAuxvInfo, ThreadName, SuspendThreads, CpuInfoFileOpen)
    pub failspots: u8,
}

#[derive(Serialize, Deserialize, Clone, Debug, PartialEq)]
pub enum DestFx {
    /// write() accepts only k bytes
    Short(u64),
    Interrupted,
    /// write() returns Ok(0): the destination is full
    Zero,
    /// hard error with this raw os error
    Error(i32),
    Panic,
    /// the writer process dies before this op: run is cut here (modelled by a hard error that
    /// we remember as a crash point; the destination keeps what it has)
    Crash,
}

#[derive(Serialize, Deserialize, Clone, Debug, Default)]
pub struct DestPlan {
    pub start: u64,
    pub pre_len: u64,
    /// the recorded window of the destination begins at this absolute offset (a destination
    /// positioned beyond 4 GiB is modelled sparsely); pre-existing content starts here
    #[serde(default)]
    pub origin: u64,
    /// (op index among all destination calls of this dump, effect)
    pub fx: Vec<(u32, DestFx)>,
    /// a destination that takes at most this many bytes of any write of 12 or 8 bytes (a block-oriented
    /// destination at a block boundary: the writes that publish a directory entry); 0 = off
    #[serde(default)]
    pub short_entry: u64,
}

#[derive(Serialize, Deserialize, Clone, Debug, Default)]
pub struct DumpPlan {
    pub opts: Opts,
    pub dests: Vec<DestPlan>,
    /// events applied between dump k and k+1 (world evolution for the reuse property)
    #[serde(default)]
    pub between: Vec<Vec<EventKind>>,
}

#[derive(Serialize, Deserialize, Clone, Debug)]
pub struct MemReadOp {
    /// 0 = vm_readv, 1 = /proc/pid/mem, 2 = ptrace peek, 3 = auto
    pub strategy: u8,
    pub src: u64,
    pub len: u64,
}

#[derive(Serialize, Deserialize, Clone, Debug)]
pub enum DirOp {
    AllocU32(u32),
    AllocBytes(B),
    AllocArrayU64(u32),
    SetU64 { array: u32, idx: u32, val: u64 },
    WriteString(String),
    Flush,
    Dirent { stream_type: u32, from_alloc: u32 },
    /// emit a directory entry without flushing (DirSection::dump_dir_entry called on its own)
    EntryOnly { stream_type: u32, from_alloc: u32 },
}

#[derive(Serialize, Deserialize, Clone, Debug)]
pub struct DirPlan {
    pub slots: u32,
    pub dest: DestPlan,
    pub ops: Vec<DirOp>,
}

#[derive(Serialize, Deserialize, Clone, Debug)]
pub struct ElfIdPlan {
    /// region start whose memory holds the image (read through ProcessReader)
    pub base: u64,
    /// file path holding the image (read through read_from_file); empty = skip
    pub path: B,
    /// is the image well-formed by construction (oracle demands equality with the reference reader)
    pub well_formed: bool,
    /// expectations from the generator (cross-checked against the independent reader)
    pub want_build_id: Option<B>,
    pub want_soname: Option<String>,
}

#[derive(Serialize, Deserialize, Clone, Debug)]
pub enum Workload {
    Dump(DumpPlan),
    MemRead(Vec<MemReadOp>),
    DirSection(DirPlan),
    ElfId(ElfIdPlan),
}

#[derive(Serialize, Deserialize, Clone, Debug)]
pub struct Scenario {
    pub prop: String,
    pub seed: u64,
    pub profile: String,
    pub world: World,
    pub workload: Workload,
    pub events: Vec<Event>,
    pub faults: Vec<FaultRule>,
    pub sched: Sched,
    /// free-form generator notes (bucketed choices, used for the distinct-case signature)
    #[serde(default)]
    pub tags: Vec<String>,
}
