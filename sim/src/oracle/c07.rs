//! C07 — the memory list is faithful and complete.

use super::{util, v, Violation};
use crate::decode;
use crate::run::RunResult;
use crate::scenario::*;

pub fn check(sc: &Scenario, res: &RunResult) -> Vec<Violation> {
    let mut out = Vec::new();
    let Some(opts) = util::dump_opts(sc) else { return out };
    if let Some(d) = res.dumps.first() {
        if let crate::run::DumpRes::Err(e) = &d.result {
            // a requested region that lies wholly in the target's memory can always be copied (private
            // pages the target cannot read itself are reachable through /proc/pid/mem and ptrace): a
            // request that fails on it means the region does not appear
            let k = &d.kernel_after;
            let undisturbed = sc.events.is_empty() && !k.dead && sc.faults.iter().all(|f| matches!(f.trig.kind, CallKind::Vmreadv) || (f.trig.kind == CallKind::Open && f.trig.path.as_deref() == Some("/mem")));
            // which strategies can reach a region: the vectored read needs pages the target can read, the
            // memory file and ptrace do not, but ptrace needs the blamed thread to be the writer's tracee
            let vm_ok = !sc.faults.iter().any(|f| f.trig.kind == CallKind::Vmreadv);
            let file_ok = !sc.faults.iter().any(|f| f.trig.kind == CallKind::Open);
            let peek_ok = k.world.threads.iter().find(|t| t.tid == opts.blamed).map(|t| !t.foreign_tracer && !t.zombie).unwrap_or(false);
            let reachable = |p: u64, l: u64| (vm_ok && k.accessible_run(p, l, false) == l) || ((file_ok || peek_ok) && k.accessible_run(p, l, true) == l);
            // the window around the crash instruction pointer (and a stack) that cannot be read is left
            // out; it does not cost the whole request
            if undisturbed && e.contains("SectionThreadListError(CopyFromProcessError") {
                out.push(v("C07", "unreadable-memory-fails-request", format!("the request failed on memory of the thread list that cannot be read: {}", e.chars().take(200).collect::<String>())));
            }
            if undisturbed && e.contains("SectionAppMemoryError") && !opts.app_memory.is_empty() && opts.app_memory.iter().all(|(p, l)| *l > 0 && reachable(*p, *l)) {
                out.push(v("C07", "app-region-request-failed", format!("every requested region lies wholly in the target's memory, but the request failed: {}", e.chars().take(200).collect::<String>())));
            }
        }
    }
    let Some((d, img)) = util::first_ok(res) else { return out };
    let dec = decode::decode(img);
    let Some(mem) = &dec.memory else {
        out.push(v("C07", "memory-list-missing", "successful dump without a memory list".into()));
        return out;
    };
    let k = &d.kernel_after;
    let w = &k.world;
    // stack regions of sanitized dumps are legitimately altered
    let stack_ranges: Vec<(u64, u32, u32)> = dec
        .threads
        .as_ref()
        .map(|ts| ts.iter().filter(|t| t.stack_size > 0).map(|t| (t.stack_start, t.stack_size, t.stack_rva)).collect())
        .unwrap_or_default();
    for m in mem {
        let Some(bytes) = util::mem_desc_bytes(img, m) else { continue };
        let is_stack = stack_ranges.iter().any(|s| s.0 == m.start && s.1 == m.size && s.2 == m.rva);
        if is_stack && opts.sanitize {
            continue;
        }
        if m.size == 0 {
            continue;
        }
        // every byte of the range must exist in the target
        let avail = k.accessible_run(m.start, m.size as u64, true);
        if avail < m.size as u64 {
            out.push(v("C07", "region-not-in-target", format!("region {:#x}+{} extends into unmapped memory", m.start, m.size)));
            continue;
        }
        let (mis, _sk) = util::compare_mem(k, m.start, bytes);
        if let Some(o) = mis {
            out.push(v("C07", "region-bytes-differ", format!("region {:#x}+{}: byte at {:#x} differs from the target's memory", m.start, m.size, m.start + o as u64)));
        }
    }
    // application regions: exactly (ptr, len) when wholly readable
    for (ptr, len) in &opts.app_memory {
        // wholly inside the target's memory (pages the target cannot read itself included: the writer
        // reaches them through /proc/pid/mem and ptrace)
        let readable = k.accessible_run(*ptr, *len, true) == *len;
        if !readable {
            continue;
        }
        if !mem.iter().any(|m| m.start == *ptr && m.size as u64 == *len) {
            let near: Vec<String> = mem.iter().filter(|m| m.start <= ptr + len && ptr <= &(m.start + m.size as u64)).map(|m| format!("{:#x}+{}", m.start, m.size)).collect();
            out.push(v("C07", "app-region-missing", format!("requested {:#x}+{} is not in the memory list (overlapping entries: {:?})", ptr, len, near)));
        }
    }
    // every non-empty stack is a region
    for s in &stack_ranges {
        if !mem.iter().any(|m| m.start == s.0 && m.size == s.1 && m.rva == s.2) {
            out.push(v("C07", "stack-not-in-memory-list", format!("stack {:#x}+{} has no memory-list entry", s.0, s.1)));
        }
    }
    // instruction-pointer window
    if let Some(cs) = &opts.crash {
        let listed = dec.threads.as_ref().map(|ts| ts.iter().any(|t| t.tid == opts.blamed as u32)).unwrap_or(false);
        let ip = cs.gregs[crate::profiles::REG_RIP] as u64;
        // also when the blamed thread is alive but could not be attached to (and is therefore not
        // listed): its memory is readable without attaching, through the vectored read or the memory file
        let unattached_but_readable = !listed
            && k.world.threads.iter().any(|t| t.tid == opts.blamed && !t.zombie)
            && k.thread_idx(opts.blamed).map(|i| k.threads[i].life == crate::kernel::Life::Alive).unwrap_or(false)
            && sc.events.is_empty()
            && !sc.faults.iter().any(|f| f.trig.kind == CallKind::Vmreadv);
        if listed || unattached_but_readable {
            if let Some((lo, hi)) = util::mapping_hull(w, ip) {
                let a = lo.max(ip.saturating_sub(128));
                let b = hi.min(ip.saturating_add(128));
                let readable = k.accessible_run(a, b - a, false) == b - a;
                if readable && !mem.iter().any(|m| m.start == a && m.size as u64 == b - a) {
                    let near: Vec<String> = mem.iter().filter(|m| m.start <= b && a <= m.start + m.size as u64).map(|m| format!("{:#x}+{}", m.start, m.size)).collect();
                    out.push(v("C07", "ip-window-missing", format!("crash instruction pointer {:#x} in mapping [{:#x},{:#x}): expected window {:#x}+{}; overlapping entries {:?}", ip, lo, hi, a, b - a, near)));
                }
            }
        }
    }
    out
}
