//! C19 — a writer can be reused: the k-th dump of one writer equals the dump of a fresh writer
//! taken against a clone of the world at that moment.

use super::{v, Violation};
use crate::decode;
use crate::run::{dump_on_kernel, DumpRes, RunResult};
use crate::scenario::*;

fn first_difference(a: &[u8], b: &[u8]) -> String {
    let da = decode::decode(a);
    let db = decode::decode(b);
    for (ty, (rva, size)) in &da.streams {
        match db.streams.get(ty) {
            None => return format!("stream {:#x} present only in the reused writer's image", ty),
            Some((rb, sb)) => {
                if size != sb {
                    return format!("stream {:#x}: {} bytes from the reused writer, {} bytes from a fresh writer", ty, size, sb);
                }
                let x = &a[*rva as usize..(*rva + *size) as usize];
                let y = &b[*rb as usize..(*rb + *sb) as usize];
                if x != y && rva == rb {
                    return format!("stream {:#x}: same size, different content", ty);
                }
            }
        }
    }
    let pos = a.iter().zip(b.iter()).position(|(x, y)| x != y).unwrap_or(a.len().min(b.len()));
    format!("images differ at offset {} (lengths {} / {})", pos, a.len(), b.len())
}

pub fn check(sc: &Scenario, res: &RunResult) -> (Vec<Violation>, u64) {
    let mut out = Vec::new();
    let mut extra_runs = 0;
    let Workload::Dump(plan) = &sc.workload else {
        return (out, 0);
    };
    for (k, d) in res.dumps.iter().enumerate() {
        let Some(kb) = &d.kernel_before else { continue };
        let fresh = dump_on_kernel(kb.clone(), &sc.world, &plan.opts, &plan.dests[k], sc.seed ^ (k as u64));
        extra_runs += 1;
        match (&d.result, &fresh.result) {
            (DumpRes::Ok(a), DumpRes::Ok(b)) => {
                if a != b {
                    let id = if k == 0 { "first-request-not-deterministic" } else { "reused-writer-image-differs" };
                    out.push(v("C19", id, format!("request {} of {}: {}", k + 1, res.dumps.len(), first_difference(a, b))));
                }
            }
            (x, y) => {
                if x.tag() != y.tag() {
                    let id = if k == 0 { "first-request-not-deterministic" } else { "reused-writer-outcome-differs" };
                    out.push(v("C19", id, format!("request {}: reused writer -> {}, fresh writer -> {}", k + 1, x.tag(), y.tag())));
                }
            }
        }
        if d.kernel_after.trace_hash != fresh.kernel_after.trace_hash && out.is_empty() {
            let id = if k == 0 { "first-request-not-deterministic" } else { "reused-writer-world-differs" };
            out.push(v("C19", id, format!("request {}: the sequence of kernel calls differs between the reused and the fresh writer", k + 1)));
        }
        if d.dest.data != fresh.dest.data && out.is_empty() {
            out.push(v("C19", "reused-writer-destination-differs", format!("request {}", k + 1)));
        }
    }
    (out, extra_runs)
}
