//! Semantic, offset-independent digest of an image: used to compare two dumps stream by stream.

use crate::decode::*;
use std::collections::BTreeMap;

fn sl(img: &[u8], rva: u32, size: u32) -> &[u8] {
    let a = rva as usize;
    let b = (rva as u64 + size as u64) as usize;
    if b <= img.len() {
        &img[a..b]
    } else {
        &[]
    }
}

pub fn digest(dec: &Decoded, img: &[u8]) -> BTreeMap<String, Vec<u8>> {
    let mut m: BTreeMap<String, Vec<u8>> = BTreeMap::new();
    if let Some(ts) = &dec.threads {
        let mut v = Vec::new();
        for t in ts {
            v.extend_from_slice(format!("T{} {} {} {} {:#x} {:#x}+{} ctx{};", t.tid, t.suspend_count, t.priority_class, t.priority, t.teb, t.stack_start, t.stack_size, t.ctx_size).as_bytes());
            v.extend_from_slice(sl(img, t.stack_rva, t.stack_size));
            v.extend_from_slice(sl(img, t.ctx_rva, t.ctx_size));
        }
        m.insert("threads".into(), v);
    }
    if let Some(ms) = &dec.modules {
        let mut v = Vec::new();
        for x in ms {
            v.extend_from_slice(format!("M{:#x}+{} {:?} {:?} cv{:?};", x.base, x.size, x.name, x.version, x.cv).as_bytes());
        }
        m.insert("modules".into(), v);
    }
    if let Some(ms) = &dec.memory {
        let mut v = Vec::new();
        for x in ms {
            v.extend_from_slice(format!("R{:#x}+{};", x.start, x.size).as_bytes());
            v.extend_from_slice(sl(img, x.rva, x.size));
        }
        m.insert("memory".into(), v);
    }
    if let Some(x) = &dec.exception {
        let mut v = format!("X{} {:#x} {:#x} {:#x} {:#x} {} ctx{};", x.tid, x.code, x.flags, x.record, x.address, x.nparams, x.ctx_size).into_bytes();
        v.extend_from_slice(sl(img, x.ctx_rva, x.ctx_size));
        m.insert("exception".into(), v);
    }
    if let Some(s) = &dec.sysinfo {
        m.insert("sysinfo".into(), format!("{} {} {} {} {} {} {:?} {:?}", s.arch, s.level, s.revision, s.nproc, s.product_type, s.platform, s.csd, s.vendor).into_bytes());
    }
    if let Some(mi) = &dec.meminfo {
        m.insert("meminfo".into(), format!("{:?}", mi).into_bytes());
    }
    if let Some(h) = &dec.handles {
        let mut v = Vec::new();
        for x in h {
            v.extend_from_slice(format!("H{} {:?} {:#o} t{};", x.handle, x.name, x.attributes, x.type_rva).as_bytes());
        }
        m.insert("handles".into(), v);
    }
    if let Some(n) = &dec.names {
        let mut l: Vec<String> = n.iter().map(|(t, _, s)| format!("{}={:?}", t, s)).collect();
        l.sort();
        m.insert("names".into(), l.join(";").into_bytes());
    }
    for (ty, b) in &dec.raw {
        m.insert(format!("raw{:#x}", ty), b.clone());
    }
    if let Some(d) = &dec.dso {
        m.insert("dso".into(), format!("{} {} {:#x} {:#x} {:#x} {:?} {:?}", d.version, d.count, d.brk, d.ldbase, d.dynamic, d.links, d.dyn_bytes).into_bytes());
    }
    m
}

pub fn raw_name(ty: u32) -> String {
    format!("raw{:#x}", ty)
}
