//! helpers shared by the oracles

use crate::decode::{Ctx, Decoded, MemDesc};
use crate::kernel::Kernel;
use crate::run::{DumpOutcome, RunResult};
use crate::scenario::*;

pub fn dump_opts(sc: &Scenario) -> Option<&Opts> {
    match &sc.workload {
        Workload::Dump(p) => Some(&p.opts),
        _ => None,
    }
}

pub fn first_ok<'a>(res: &'a RunResult) -> Option<(&'a DumpOutcome, &'a [u8])> {
    let d = res.dumps.first()?;
    let img = d.result.image()?;
    Some((d, img))
}

/// bytes of target memory [addr, addr+len) as recorded in the dump's memory list (if wholly covered)
pub fn dumped_bytes<'a>(dec: &Decoded, img: &'a [u8], addr: u64, len: u64) -> Option<&'a [u8]> {
    for m in dec.memory.as_ref()? {
        if addr >= m.start && addr + len <= m.start + m.size as u64 {
            let off = m.rva as u64 + (addr - m.start);
            if off + len <= img.len() as u64 {
                return Some(&img[off as usize..(off + len) as usize]);
            }
        }
    }
    None
}

pub fn mem_desc_bytes<'a>(img: &'a [u8], m: &MemDesc) -> Option<&'a [u8]> {
    let end = m.rva as u64 + m.size as u64;
    if end <= img.len() as u64 {
        Some(&img[m.rva as usize..end as usize])
    } else {
        None
    }
}

/// Aggregated mapping (as the property statements use the word): contiguous memory-map lines merge
/// when they carry the same non-empty name, or when the line is the loader's inaccessible reserved
/// gap (anonymous, private, no permissions, offset 0) directly after, or between two parts of, an
/// executable file mapping. Returns the hull of the group containing `addr`.
pub fn mapping_hull(w: &World, addr: u64) -> Option<(u64, u64)> {
    let rs = &w.regions;
    let mut groups: Vec<(u64, u64, Vec<u8>, bool)> = Vec::new(); // start, end, name, exec
    let mut i = 0usize;
    while i < rs.len() {
        let r = &rs[i];
        let is_gap = r.name.0.is_empty() && r.perms == "---p" && r.offset == 0;
        if let Some(g) = groups.last_mut() {
            let contiguous = g.1 == r.start;
            if contiguous && !g.2.is_empty() && g.2 == r.name.0 {
                g.1 = r.end();
                g.3 |= r.perms.as_bytes()[2] == b'x';
                i += 1;
                continue;
            }
            if contiguous && g.2.contains(&b'/') && is_gap {
                let between = rs.get(i + 1).map(|n| n.start == r.end() && n.name.0 == g.2).unwrap_or(false);
                if g.3 || between {
                    g.1 = r.end();
                    i += 1;
                    continue;
                }
            }
        }
        groups.push((r.start, r.end(), r.name.0.clone(), r.perms.as_bytes()[2] == b'x'));
        i += 1;
    }
    groups.iter().find(|g| addr >= g.0 && addr < g.1).map(|g| (g.0, g.1))
}

/// true when the address lies in pages that no remote-read strategy can read (World::no_remote)
pub fn no_remote(w: &World, addr: u64) -> bool {
    w.no_remote.iter().any(|(s, l)| addr >= *s && addr - *s < *l)
}

pub fn region_of(w: &World, addr: u64) -> Option<&RegionSpec> {
    w.regions.iter().find(|r| addr >= r.start && addr - r.start < r.len)
}

/// compare captured bytes with memory as of the end of the capture window, skipping words that
/// were written while the window was open. Returns (first mismatch offset, skipped bytes)
pub fn compare_mem(k: &Kernel, start: u64, got: &[u8]) -> (Option<usize>, usize) {
    let want = k.read_mem_captured(start, got.len());
    let mut skipped = 0;
    for i in 0..got.len() {
        if got[i] != want[i] {
            let a = start + i as u64;
            let unstable = k.unstable_addrs.range(a.saturating_sub(7)..=a).next().is_some();
            if unstable {
                skipped += 1;
                continue;
            }
            return (Some(i), skipped);
        }
    }
    (None, skipped)
}

pub fn ctx_gprs(c: &Ctx) -> Vec<(&'static str, u64)> {
    vec![
        ("rax", c.rax),
        ("rcx", c.rcx),
        ("rdx", c.rdx),
        ("rbx", c.rbx),
        ("rsp", c.rsp),
        ("rbp", c.rbp),
        ("rsi", c.rsi),
        ("rdi", c.rdi),
        ("r8", c.r8),
        ("r9", c.r9),
        ("r10", c.r10),
        ("r11", c.r11),
        ("r12", c.r12),
        ("r13", c.r13),
        ("r14", c.r14),
        ("r15", c.r15),
        ("rip", c.rip),
    ]
}

/// the same registers out of a user_regs_struct image
pub fn regs_gprs(r: &[u64; NREGS]) -> Vec<(&'static str, u64)> {
    vec![
        ("rax", r[R_RAX]),
        ("rcx", r[R_RCX]),
        ("rdx", r[R_RDX]),
        ("rbx", r[R_RBX]),
        ("rsp", r[R_RSP]),
        ("rbp", r[R_RBP]),
        ("rsi", r[R_RSI]),
        ("rdi", r[R_RDI]),
        ("r8", r[R_R8]),
        ("r9", r[R_R9]),
        ("r10", r[R_R10]),
        ("r11", r[R_R11]),
        ("r12", r[R_R12]),
        ("r13", r[R_R13]),
        ("r14", r[R_R14]),
        ("r15", r[R_R15]),
        ("rip", r[R_RIP]),
    ]
}

pub fn soft_errors_text(dec: &Decoded) -> String {
    dec.soft_errors.as_ref().map(|b| String::from_utf8_lossy(b).into_owned()).unwrap_or_default()
}
