//! C10 — every prefix of the output is a consistent truncated minidump.

use super::{v, Violation};
use crate::decode;
use crate::dest::{OpKind, SimDest};

/// Check the destination content after `nops` completed destination calls.
pub fn check_snapshot(dest: &SimDest, nops: u32, what: &str) -> Vec<Violation> {
    let snap = dest.snapshot_after(nops);
    // the pre-existing tail beyond what the writer produced is not part of the dump: cut the
    // view at the highest byte the writer has written so far
    let mut hi = 0usize;
    for (op, pos, bytes) in &dest.patches {
        if *op >= nops {
            break;
        }
        hi = hi.max(*pos as usize + bytes.len());
    }
    check_image(&snap, dest.start as usize, hi, what)
}

fn check_image(snap: &[u8], start: usize, hi: usize, what: &str) -> Vec<Violation> {
    let mut out = Vec::new();
    if snap.len() <= start || hi <= start {
        return out;
    }
    let img = &snap[start..];
    let img = &img[..(hi - start).min(img.len())];
    let d = decode::decode(img);
    for p in &d.problems {
        // an entry whose type is still zero is an unused entry, whatever its location field holds (an
        // entry being published location-first passes through this state)
        if p.code == "dirent-unused-nonzero" {
            continue;
        }
        // ... and the type itself is published upper half first: until the lower half is there the entry
        // carries a number that is no stream type at all (low 16 bits zero) - never another stream's type
        if p.code == "stream-unknown-type" {
            let t = p.detail.rsplit("0x").next().and_then(|h| u32::from_str_radix(h.trim(), 16).ok());
            if t.map(|t| t & 0xffff == 0).unwrap_or(false) {
                continue;
            }
        }
        // in a truncated image every reference must already be satisfiable
        out.push(v("C10", &format!("prefix-{}", p.code), format!("{} ({} bytes present): {}", what, img.len(), p.detail)));
    }
    // an entry has to refer to its own stream's bytes: two objects claimed in one place (offsets that
    // wrapped around 32 bits land on earlier content) means one of them is not where the entry says
    for p in decode::overlaps(&d) {
        out.push(v("C10", &format!("prefix-{}", p.code), format!("{} ({} bytes present): {}", what, img.len(), p.detail)));
    }
    out
}

/// Every boundary between destination calls of a recorded (fault-free) run.
pub fn check_all_boundaries(dest: &SimDest) -> (Vec<Violation>, u32) {
    let mut out = Vec::new();
    let n = dest.ops.len() as u32;
    // from the first completed write on
    let first_write = dest.ops.iter().position(|o| o.kind == OpKind::Write && o.result > 0);
    let Some(fw) = first_write else {
        return (out, 0);
    };
    let mut checked = 0;
    // the destination content is built up call by call (one buffer, each call's bytes applied once)
    let mut snap = dest.pre.clone();
    let mut hi = 0usize;
    let mut pi = 0usize;
    for k in (fw as u32 + 1)..=n {
        while pi < dest.patches.len() && dest.patches[pi].0 < k {
            let (_, pos, bytes) = &dest.patches[pi];
            let end = *pos as usize + bytes.len();
            if snap.len() < end {
                snap.resize(end, 0);
            }
            snap[*pos as usize..end].copy_from_slice(bytes);
            hi = hi.max(end);
            pi += 1;
        }
        checked += 1;
        let vs = check_image(&snap, dest.start as usize, hi, &format!("after {} of {} destination calls", k, n));
        if !vs.is_empty() {
            out.extend(vs);
            // one boundary is enough to report; keep scanning only for distinct oracle ids
            if out.len() > 8 {
                break;
            }
        }
    }
    (out, checked)
}
