//! Oracles: one module per property. Written from the property statements, not from the code.

use crate::run::{run, RunOpts, RunResult};
use crate::scenario::*;

pub mod c01;
pub mod c02;
pub mod c03;
pub mod c04;
pub mod c05;
pub mod c06;
pub mod c07;
pub mod c15;
pub mod c17;
pub mod c18;
pub mod c20;
pub mod util;
pub mod c08;
pub mod c09;
pub mod c10;
pub mod c11;
pub mod c14;
pub mod digest;
pub mod c19;

#[derive(Clone, Debug)]
pub struct Violation {
    pub prop: &'static str,
    /// stable oracle id (used for known-finding signatures and for shrinking)
    pub oracle: String,
    pub detail: String,
}

pub fn v(prop: &'static str, oracle: &str, detail: String) -> Violation {
    Violation {
        prop,
        oracle: oracle.to_string(),
        detail,
    }
}

#[derive(Default)]
pub struct Eval {
    pub violations: Vec<Violation>,
    pub runs: u64,
    pub sim_ns: u64,
    pub sim_calls: u64,
    pub signature: String,
    pub nontrivial: bool,
    pub counters: Vec<(String, u64)>,
    pub trace_hash: u64,
    /// C03: the concrete faulted scenario of the sweep that violated (becomes the replay file)
    pub sweep_hit: Option<Scenario>,
}

impl Eval {
    pub fn count(&mut self, k: &str, n: u64) {
        self.counters.push((k.to_string(), n));
    }
}

fn effect_name(e: &Effect) -> String {
    match e {
        Effect::Errno(n) => format!("errno{}", n),
        Effect::Short(_) => "short".into(),
        Effect::Status(_) => "status".into(),
    }
}

fn event_name(e: &EventKind) -> &'static str {
    match e {
        EventKind::ThreadExit { .. } => "thread_exit",
        EventKind::SignalThread { .. } => "signal_thread",
        EventKind::SignalProcess { .. } => "signal_process",
        EventKind::KillProcess => "kill_process",
        EventKind::WriteMem { .. } => "write_mem",
        EventKind::Rename { .. } => "rename",
        EventKind::CloseFd { .. } => "close_fd",
        EventKind::Spawn { .. } => "spawn",
        EventKind::UnmapNamed { .. } => "unmap",
        EventKind::ForeignTracer { .. } => "foreign_tracer",
        EventKind::MapAnon { .. } => "map_anon",
        EventKind::ContinueProcess => "sigcont_from_outside",
    }
}

/// Account one finished run into an Eval: counters for results, fired faults/events, probes.
/// Returns the interleaving part of the signature: ordered (trigger kind, event-or-fault kind).
pub fn account(ev: &mut Eval, sc: &Scenario, res: &RunResult) -> String {
    ev.runs += 1;
    // a jump of the simulated clock over a never-ending sleep is not simulated time covered
    ev.sim_ns = ev.sim_ns.saturating_add(res.kernel.clock_ns.min(sc.sched.max_ns));
    ev.sim_calls += res.kernel.seq;
    ev.trace_hash ^= res.kernel.trace_hash.rotate_left((ev.runs % 63) as u32);
    let mut sig = String::new();
    for d in &res.dumps {
        ev.count(&format!("dump_{}", d.result.tag()), 1);
        sig.push_str(d.result.tag());
        sig.push(',');
        if let crate::run::DumpRes::Panic(p) = &d.result {
            ev.count("aborted_by_panic", 1);
            let site = p.rsplit('@').next().unwrap_or("").trim().to_string();
            ev.count(&format!("panic_site {}", site), 1);
        }
        for (_, fx) in &d.dest.fx_fired {
            let n = match fx {
                DestFx::Short(_) => "dest_short_write",
                DestFx::Interrupted => "dest_interrupted",
                DestFx::Zero => "dest_write_zero",
                DestFx::Error(_) => "dest_error",
                DestFx::Panic => "dest_panic",
                DestFx::Crash => "dest_crash",
            };
            ev.count(&format!("fault {}", n), 1);
            sig.push_str(n);
            sig.push(',');
        }
    }
    for fi in &res.kernel.gt.faults_fired {
        if let Some(f) = sc.faults.get(*fi as usize) {
            let n = format!("{:?}:{}", f.trig.kind, effect_name(&f.effect));
            ev.count(&format!("fault {}", n), 1);
            sig.push_str(&n);
            sig.push(',');
        }
    }
    for ei in &res.kernel.gt.events_fired {
        if let Some(e) = sc.events.get(*ei as usize) {
            let n = format!("{:?}:{}", e.trig.kind, event_name(&e.what));
            ev.count(&format!("event {}", event_name(&e.what)), 1);
            sig.push_str(&n);
            sig.push(',');
        }
    }
    for (k, n) in &res.kernel.gt.probes {
        ev.count(&format!("probe {}", k), *n);
    }
    if res.kernel.budget_exhausted {
        ev.count("budget_exhausted", 1);
    }
    if res.kernel.bytes_moved > res.kernel.max_bytes {
        ev.count("byte budget exhausted", 1);
    }
    // how close runs come to the byte budget (a measure of its margin)
    if res.kernel.bytes_moved > res.kernel.max_bytes / 8 {
        ev.count("run moved more than an eighth of its byte budget", 1);
    }
    if res.kernel.bytes_moved >= (64 << 20) {
        ev.count("run moved 64 MiB or more", 1);
    }
    {
        use crate::scenario::CallKind as K;
        let c = &res.kernel.gt.counts;
        let g = &res.kernel.gt;
        if g.strategies_used[1] > 0 {
            ev.count("probe remote_reads_via_proc_mem", 1);
        }
        if g.strategies_used[2] > 0 {
            ev.count("probe remote_reads_via_peekdata", 1);
        }
        if c[K::PtraceGetregs as usize] > c[K::PtraceAttach as usize] {
            ev.count("probe getregs_fallback_after_getregset_failure", 1);
        }
        if c[K::Mmap as usize] > 0 {
            ev.count("probe module_file_mapped", 1);
        }
        if c[K::PtraceCont as usize] > 0 {
            ev.count("probe signal_reinjected_during_attach", 1);
        }
        if c[K::Nanosleep as usize] > 50 {
            ev.count("probe stop_wait_ran_into_timeout", 1);
        }
        if !g.exits.is_empty() {
            ev.count("probe thread_or_process_died_during_run", 1);
        }
        if res.kernel.dead {
            ev.count("probe process_killed_during_run", 1);
        }
        if res.kernel.threads.iter().any(|t| t.life == crate::kernel::Life::Zombie) {
            ev.count("probe zombie_thread_present", 1);
        }
    }
    if res.kernel.gt.short_mem_reads > 0 {
        ev.count("probe short_remote_read", res.kernel.gt.short_mem_reads);
    }
    if res.kernel.gt.unstable_writes > 0 {
        ev.count("unstable_bytes_runs", 1);
    }
    if let Workload::Dump(p) = &sc.workload {
        if p.opts.failspots != 0 {
            ev.count("fault failspot", p.opts.failspots.count_ones() as u64);
        }
    }
    sig
}

pub fn base_signature(sc: &Scenario) -> String {
    let mut s = sc.profile.clone();
    s.push('|');
    let t: Vec<&str> = sc.tags.iter().filter(|t| !t.starts_with("cpu:")).map(|t| t.as_str()).collect();
    s.push_str(&t.join("+"));
    s.push('|');
    s
}

/// Evaluate the property's decision procedure on one scenario.
pub fn evaluate(prop: &str, sc: &Scenario) -> Eval {
    let mut ev = Eval::default();
    match prop {
        "C01" => {
            let res = run(sc, &RunOpts::default());
            let isig = account(&mut ev, sc, &res);
            ev.violations = c01::check(sc, &res);
            let ok = res.dumps.first().map(|d| d.result.is_ok()).unwrap_or(false);
            ev.nontrivial = ok && (sc.tags.len() > 1 || !isig.is_empty());
            ev.signature = format!("{}{}", base_signature(sc), isig);
        }
        "C04" | "C05" | "C06" | "C07" | "C08" | "C15" | "C18" | "C20" => {
            let res = run(sc, &RunOpts::default());
            let isig = account(&mut ev, sc, &res);
            ev.violations = match prop {
                "C04" => c04::check(sc, &res),
                "C05" => c05::check(sc, &res),
                "C06" => c06::check(sc, &res),
                "C07" => c07::check(sc, &res),
                "C08" => c08::check(sc, &res),
                "C15" => c15::check(sc, &res),
                "C18" => c18::check(sc, &res),
                _ => c20::check(sc, &res),
            };
            ev.nontrivial = res.dumps.first().map(|d| d.result.is_ok()).unwrap_or(false);
            ev.signature = format!("{}{}", base_signature(sc), isig);
        }
        "C11" => {
            let res = run(sc, &RunOpts::default());
            let isig = account(&mut ev, sc, &res);
            let twin_sc = c11::twin_of(sc);
            let twin = run(&twin_sc, &RunOpts::default());
            ev.runs += 1;
            ev.violations = c11::check(sc, &res, Some(&twin));
            ev.nontrivial = sc.tags.iter().any(|t| t.starts_with("expect:"));
            ev.signature = format!("{}{}", base_signature(sc), isig);
        }
        "C02" => {
            let res = run(sc, &RunOpts::default());
            let isig = account(&mut ev, sc, &res);
            ev.violations = c02::check(sc, &res);
            ev.nontrivial = sc.tags.iter().any(|t| t.starts_with("h:"));
            ev.signature = format!("{}{}", base_signature(sc), isig);
        }
        "C03" => {
            let res = run(sc, &RunOpts::default());
            let mut isig = account(&mut ev, sc, &res);
            ev.violations = c03::check_run(sc, &res, "base run");
            // fault sweep over the calls of the recorded run
            let thorough = std::env::var("VERIF_TIER").map(|t| t == "thorough").unwrap_or(false);
            let limit = if thorough { 400 } else { 48 };
            let sweeps = if sc.profile.starts_with("c03-concrete") { Vec::new() } else { crate::profiles::c03_sweep(sc, &res, limit) };
            ev.count("sweep_runs", sweeps.len() as u64);
            for (label, s2) in sweeps {
                let r2 = run(&s2, &RunOpts::default());
                let _ = account(&mut ev, &s2, &r2);
                let vs = c03::check_run(&s2, &r2, &label);
                if !vs.is_empty() && ev.violations.len() < 6 {
                    for mut x in vs {
                        x.detail = format!("[{}] {}", label, x.detail);
                        ev.violations.push(x);
                    }
                    ev.sweep_hit = Some(s2);
                }
                isig.push_str(&label.split(' ').next().unwrap_or("").to_string());
                isig.push(',');
            }
            ev.nontrivial = !res.kernel.gt.events_fired.is_empty() || !res.kernel.gt.faults_fired.is_empty() || ev.runs > 1;
            ev.signature = format!("{}{}", base_signature(sc), crate::rng::fnv64(isig.as_bytes()));
        }
        "C14" => {
            let res = run(sc, &RunOpts::default());
            let isig = account(&mut ev, sc, &res);
            ev.violations = c14::check(sc, &res);
            ev.nontrivial = res.elf.is_some();
            if let Some(o) = &res.elf {
                if matches!(o.mem_build_id, Some(Ok(_))) {
                    ev.count("probe build_id_from_memory", 1);
                }
                if matches!(o.file_build_id, Some(Ok(_))) {
                    ev.count("probe build_id_from_file", 1);
                }
                if matches!(o.mem_soname, Some(Ok(_))) {
                    ev.count("probe soname_from_memory", 1);
                }
            }
            ev.signature = format!("{}{}", base_signature(sc), isig);
        }
        "C17" => {
            let res = run(sc, &RunOpts::default());
            let isig = account(&mut ev, sc, &res);
            ev.violations = c17::check(sc, &res);
            ev.count("remote_reads", res.mem_reads.len() as u64);
            ev.count("remote_reads_ok", res.mem_reads.iter().filter(|m| m.result.is_ok()).count() as u64);
            for (i, n) in res.kernel.gt.strategies_used.iter().enumerate() {
                ev.count(&format!("probe strategy_{}_served", ["vm_readv", "proc_mem", "peekdata"][i]), *n);
            }
            ev.nontrivial = !res.mem_reads.is_empty();
            ev.signature = format!("{}{}", base_signature(sc), isig);
        }
        "C09" => {
            let res = run(sc, &RunOpts::default());
            let isig = account(&mut ev, sc, &res);
            let mut faulted = false;
            let mut offset = false;
            if let Workload::Dump(p) = &sc.workload {
                faulted = p.dests.iter().any(|d| !d.fx.is_empty());
                offset = p.dests.iter().any(|d| d.start != 0 || d.pre_len != 0);
                if faulted {
                    let mut twin = sc.clone();
                    if let Workload::Dump(tp) = &mut twin.workload {
                        for d in tp.dests.iter_mut() {
                            d.fx.clear();
                        }
                    }
                    let tres = run(&twin, &RunOpts::default());
                    ev.runs += 1;
                    if let (Some(a), Some(b)) = (res.dumps.first(), tres.dumps.first()) {
                        ev.violations = c09::check_pair(a, b);
                        ev.violations.extend(c09::check_clean(b));
                    }
                } else if let Some(a) = res.dumps.first() {
                    ev.violations = c09::check_clean(a);
                }
            }
            if let Some(d) = &res.dir {
                ev.violations.extend(crate::workloads::check_dirsection(sc, d));
                ev.count("dirsection_sequences", 1);
                faulted = !d.dest.fx_fired.is_empty();
                offset = d.dest.start != 0;
                ev.nontrivial = true;
            }
            let fired = res.dumps.first().map(|d| !d.dest.fx_fired.is_empty()).unwrap_or(false);
            ev.nontrivial |= fired || offset;
            let _ = faulted;
            ev.signature = format!("{}{}", base_signature(sc), isig);
        }
        "C10" => {
            let res = run(sc, &RunOpts::default());
            let isig = account(&mut ev, sc, &res);
            let mut nops = 0u32;
            if let Some(d) = res.dumps.first() {
                let (vs, checked) = c10::check_all_boundaries(&d.dest);
                ev.violations = vs;
                ev.count("crash_points_checked", checked as u64);
                nops = d.dest.ops.len() as u32;
            }
            // a hard error at every destination call in turn
            let stride = if std::env::var("VERIF_TIER").map(|t| t == "thorough").unwrap_or(false) { 1 } else { 3 };
            let mut k = (sc.seed % stride as u64) as u32;
            // (the two worlds that move gigabytes are checked at every boundary of their fault-free run
            // only: each further run costs seconds)
            let big = sc.tags.iter().any(|t| t.starts_with("over-"));
            while k < nops && !big {
                let mut f = sc.clone();
                if let Workload::Dump(p) = &mut f.workload {
                    p.dests[0].fx.retain(|(o, _)| *o != k);
                    // alternate between a hard error and a destination that reports "full" (Ok(0))
                    let is_write = res.dumps.first().and_then(|d| d.dest.ops.get(k as usize)).map(|o| o.kind == crate::dest::OpKind::Write).unwrap_or(false);
                    p.dests[0].fx.push((k, if k % 2 == 0 || !is_write { DestFx::Error(crate::kernel::ENOSPC) } else { DestFx::Zero }));
                    p.dests[0].fx.sort_by_key(|(o, _)| *o);
                }
                let fres = run(&f, &RunOpts::default());
                ev.runs += 1;
                ev.count("fault dest_error", 1);
                if let Some(d) = fres.dumps.first() {
                    let n = d.dest.ops.len() as u32;
                    let vs = c10::check_snapshot(&d.dest, n, &format!("after a hard error at destination call {}", k));
                    if !vs.is_empty() && ev.violations.len() < 8 {
                        ev.violations.extend(vs);
                    }
                    if d.result.is_ok() {
                        ev.violations.push(v("C10", "error-swallowed", format!("hard error at destination call {} but the request reported success", k)));
                    }
                }
                k += stride;
            }
            ev.nontrivial = nops >= 20;
            ev.signature = format!("{}{}ops{}", base_signature(sc), isig, nops / 4);
        }
        "C19" => {
            let res = run(sc, &RunOpts { keep_before: true, ..Default::default() });
            let isig = account(&mut ev, sc, &res);
            let (vs, extra) = c19::check(sc, &res);
            ev.runs += extra;
            ev.violations = vs;
            ev.nontrivial = res.dumps.len() >= 2 && res.dumps.iter().filter(|d| d.result.is_ok()).count() >= 2;
            ev.signature = format!("{}{}", base_signature(sc), isig);
        }
        _ => {
            let res = run(sc, &RunOpts::default());
            let isig = account(&mut ev, sc, &res);
            ev.signature = format!("{}{}", base_signature(sc), isig);
        }
    }
    ev
}
