//! Oracles: one module per property. Written from the property statements, not from the code.

use crate::run::{run, RunOpts, RunResult};
use crate::scenario::*;

pub mod c01;

#[derive(Clone, Debug)]
pub struct Violation {
    pub prop: &'static str,
    /// stable oracle id (used for known-finding signatures and for shrinking)
    pub oracle: String,
    pub detail: String,
}

pub fn v(prop: &'static str, oracle: &str, detail: String) -> Violation {
    Violation {
        prop,
        oracle: oracle.to_string(),
        detail,
    }
}

#[derive(Default)]
pub struct Eval {
    pub violations: Vec<Violation>,
    pub runs: u64,
    pub sim_ns: u64,
    pub sim_calls: u64,
    pub signature: String,
    pub nontrivial: bool,
    pub counters: Vec<(String, u64)>,
    pub trace_hash: u64,
}

impl Eval {
    pub fn count(&mut self, k: &str, n: u64) {
        self.counters.push((k.to_string(), n));
    }
}

fn effect_name(e: &Effect) -> String {
    match e {
        Effect::Errno(n) => format!("errno{}", n),
        Effect::Short(_) => "short".into(),
        Effect::Status(_) => "status".into(),
    }
}

fn event_name(e: &EventKind) -> &'static str {
    match e {
        EventKind::ThreadExit { .. } => "thread_exit",
        EventKind::SignalThread { .. } => "signal_thread",
        EventKind::SignalProcess { .. } => "signal_process",
        EventKind::KillProcess => "kill_process",
        EventKind::WriteMem { .. } => "write_mem",
        EventKind::Rename { .. } => "rename",
        EventKind::CloseFd { .. } => "close_fd",
        EventKind::Spawn { .. } => "spawn",
    }
}

/// Account one finished run into an Eval: counters for results, fired faults/events, probes.
/// Returns the interleaving part of the signature: ordered (trigger kind, event-or-fault kind).
pub fn account(ev: &mut Eval, sc: &Scenario, res: &RunResult) -> String {
    ev.runs += 1;
    ev.sim_ns += res.kernel.clock_ns;
    ev.sim_calls += res.kernel.seq;
    ev.trace_hash ^= res.kernel.trace_hash.rotate_left((ev.runs % 63) as u32);
    let mut sig = String::new();
    for d in &res.dumps {
        ev.count(&format!("dump_{}", d.result.tag()), 1);
        sig.push_str(d.result.tag());
        sig.push(',');
        if let crate::run::DumpRes::Panic(p) = &d.result {
            ev.count("aborted_by_panic", 1);
            let site = p.rsplit('@').next().unwrap_or("").trim().to_string();
            ev.count(&format!("panic_site {}", site), 1);
        }
        for (_, fx) in &d.dest.fx_fired {
            let n = match fx {
                DestFx::Short(_) => "dest_short_write",
                DestFx::Interrupted => "dest_interrupted",
                DestFx::Error(_) => "dest_error",
                DestFx::Panic => "dest_panic",
                DestFx::Crash => "dest_crash",
            };
            ev.count(&format!("fault {}", n), 1);
            sig.push_str(n);
            sig.push(',');
        }
    }
    for fi in &res.kernel.gt.faults_fired {
        if let Some(f) = sc.faults.get(*fi as usize) {
            let n = format!("{:?}:{}", f.trig.kind, effect_name(&f.effect));
            ev.count(&format!("fault {}", n), 1);
            sig.push_str(&n);
            sig.push(',');
        }
    }
    for ei in &res.kernel.gt.events_fired {
        if let Some(e) = sc.events.get(*ei as usize) {
            let n = format!("{:?}:{}", e.trig.kind, event_name(&e.what));
            ev.count(&format!("event {}", event_name(&e.what)), 1);
            sig.push_str(&n);
            sig.push(',');
        }
    }
    for (k, n) in &res.kernel.gt.probes {
        ev.count(&format!("probe {}", k), *n);
    }
    if res.kernel.budget_exhausted {
        ev.count("budget_exhausted", 1);
    }
    if res.kernel.gt.short_mem_reads > 0 {
        ev.count("probe short_remote_read", res.kernel.gt.short_mem_reads);
    }
    if res.kernel.gt.unstable_writes > 0 {
        ev.count("unstable_bytes_runs", 1);
    }
    if let Workload::Dump(p) = &sc.workload {
        if p.opts.failspots != 0 {
            ev.count("fault failspot", p.opts.failspots.count_ones() as u64);
        }
    }
    sig
}

pub fn base_signature(sc: &Scenario) -> String {
    let mut s = sc.profile.clone();
    s.push('|');
    s.push_str(&sc.tags.join("+"));
    s.push('|');
    s
}

/// Evaluate the property's decision procedure on one scenario.
pub fn evaluate(prop: &str, sc: &Scenario) -> Eval {
    let mut ev = Eval::default();
    match prop {
        "C01" => {
            let res = run(sc, &RunOpts::default());
            let isig = account(&mut ev, sc, &res);
            ev.violations = c01::check(sc, &res);
            let ok = res.dumps.first().map(|d| d.result.is_ok()).unwrap_or(false);
            ev.nontrivial = ok && (sc.tags.len() > 1 || !isig.is_empty());
            ev.signature = format!("{}{}", base_signature(sc), isig);
        }
        _ => {
            let res = run(sc, &RunOpts::default());
            let isig = account(&mut ev, sc, &res);
            ev.signature = format!("{}{}", base_signature(sc), isig);
        }
    }
    ev
}
