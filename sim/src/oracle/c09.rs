//! C09 — the destination receives exactly the image that was built.

use super::{v, Violation};
use crate::dest::SimDest;
use crate::run::{DumpOutcome, DumpRes};

fn apply(base: &mut Vec<u8>, pos: u64, bytes: &[u8]) {
    if bytes.is_empty() {
        return;
    }
    let end = pos as usize + bytes.len();
    if base.len() < end {
        base.resize(end, 0);
    }
    base[pos as usize..end].copy_from_slice(bytes);
}

/// `twin`: the same request without destination faults (gives the logical write history).
pub fn check_pair(faulted: &DumpOutcome, twin: &DumpOutcome) -> Vec<Violation> {
    let mut out = Vec::new();
    let DumpRes::Ok(full) = &twin.result else {
        return out; // no reference image: nothing to compare against
    };
    let f: &SimDest = &faulted.dest;
    let start = f.start as usize;
    // logical writes of the fault-free twin, in order
    let writes: Vec<(u64, &Vec<u8>)> = twin.dest.patches.iter().map(|(_, p, b)| (*p, b)).collect();
    match &faulted.result {
        DumpRes::Ok(img) => {
            if img != full {
                out.push(v("C09", "returned-image-differs-from-twin", format!("returned image {} bytes vs fault-free twin {} bytes", img.len(), full.len())));
            }
            let mut want = f.pre.clone();
            apply(&mut want, start as u64, img);
            if f.data != want {
                let pos = f.data.iter().zip(want.iter()).position(|(a, b)| a != b).unwrap_or(f.data.len().min(want.len()));
                out.push(v(
                    "C09",
                    "destination-differs-on-success",
                    format!(
                        "destination ({} bytes) != pre-existing content overlaid with the returned image at offset {} (first difference at destination offset {}, image offset {})",
                        f.data.len(),
                        start,
                        pos,
                        pos as i64 - start as i64
                    ),
                ));
            }
        }
        DumpRes::Err(_) | DumpRes::Panic(_) => {
            // destination must be: pre + W_1..W_j + prefix of W_{j+1}
            let mut base = f.pre.clone();
            let mut ok = false;
            for j in 0..=writes.len() {
                // candidate: everything up to j applied; next write partially applied
                if j < writes.len() {
                    let (p, b) = writes[j];
                    // longest prefix m such that F matches
                    let mut cand = base.clone();
                    let mut m = 0usize;
                    while m < b.len() {
                        let idx = p as usize + m;
                        if idx < f.data.len() && f.data[idx] == b[m] {
                            m += 1;
                        } else {
                            break;
                        }
                    }
                    // try every prefix length up to m (a shorter prefix may also match when bytes repeat)
                    for mm in [m, 0] {
                        let mut c2 = cand.clone();
                        apply(&mut c2, p, &b[..mm]);
                        if c2 == f.data {
                            ok = true;
                            break;
                        }
                    }
                    if ok {
                        break;
                    }
                    apply(&mut cand, p, b);
                    base = cand;
                } else if base == f.data {
                    ok = true;
                }
            }
            if !ok {
                out.push(v(
                    "C09",
                    "destination-not-a-prefix-of-write-history",
                    format!(
                        "after an aborted request the destination ({} bytes, start {}) equals no prefix of the fault-free write history ({} logical writes)",
                        f.data.len(),
                        start,
                        writes.len()
                    ),
                ));
            }
        }
    }
    // nothing before the start position may change, whatever happened
    if let Some((p, l)) = f.below_origin.first() {
        out.push(v("C09", "bytes-before-start-modified", format!("{} bytes written at absolute offset {} although the destination was handed over at offset {}", l, p, f.origin + f.start)));
    }
    if f.data.len() < start.min(f.pre.len()) || f.data[..start.min(f.pre.len())] != f.pre[..start.min(f.pre.len())] {
        out.push(v("C09", "bytes-before-start-modified", format!("start {}", start)));
    }
    out
}

/// The fault-free request itself: destination == pre overlaid with returned image.
pub fn check_clean(d: &DumpOutcome) -> Vec<Violation> {
    let mut out = Vec::new();
    if let DumpRes::Ok(img) = &d.result {
        let f = &d.dest;
        let mut want = f.pre.clone();
        apply(&mut want, f.start, img);
        if f.data != want {
            let pos = f.data.iter().zip(want.iter()).position(|(a, b)| a != b).unwrap_or(f.data.len().min(want.len()));
            out.push(v(
                "C09",
                "destination-differs-on-success",
                format!(
                    "destination ({} bytes) != pre-existing content overlaid with the returned image at offset {} (first difference at destination offset {})",
                    f.data.len(),
                    f.start,
                    pos
                ),
            ));
        }
    }
    out
}
