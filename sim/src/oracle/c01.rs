//! C01 — a successful dump is a structurally sound minidump.

use super::{v, Violation};
use crate::decode;
use crate::run::RunResult;
use crate::scenario::Scenario;

pub fn check_image(img: &[u8]) -> Vec<Violation> {
    let mut out = Vec::new();
    let d = decode::decode(img);
    for p in &d.problems {
        out.push(v("C01", p.code, p.detail.clone()));
    }
    for p in decode::overlaps(&d) {
        out.push(v("C01", p.code, p.detail));
    }
    out
}

pub fn check(_sc: &Scenario, res: &RunResult) -> Vec<Violation> {
    let mut out = Vec::new();
    // fresh writers only: reuse is C19's subject
    if let Some(d) = res.dumps.first() {
        if let Some(img) = d.result.image() {
            out.extend(check_image(img));
        }
    }
    out
}
