//! C02 — dumping is total: it always returns and never panics or hangs, and never opens a mapped
//! file that lives under /dev.

use super::{v, Violation};
use crate::run::{DumpRes, RunResult};
use crate::scenario::*;

fn site(p: &str) -> String {
    // "message @ file:line" -> "file:line"; dependencies: "<crate-version>/src/...:line"
    let loc = p.rsplit('@').next().unwrap_or("").trim();
    if let Some(i) = loc.find("/registry/src/") {
        let rest = &loc[i + "/registry/src/".len()..];
        // drop the registry index directory
        return rest.split_once('/').map(|x| x.1).unwrap_or(rest).to_string();
    }
    loc.replace("/repo/", "")
}

pub fn check(sc: &Scenario, res: &RunResult) -> Vec<Violation> {
    let mut out = Vec::new();
    for d in &res.dumps {
        if let DumpRes::Panic(p) = &d.result {
            if p.contains("simdest: planned") {
                continue; // the destination's own panic, injected by the plan
            }
            out.push(v("C02", &format!("panic {}", site(p)), p.clone()));
        }
        let k = &d.kernel_after;
        if k.budget_exhausted {
            if let Some(tid) = k.wait_on_sleeper {
                out.push(v("C02", "attach-wait-unbounded", format!("thread {} is in an uninterruptible sleep that does not end and never reports its attach stop: the wait after PTRACE_ATTACH has no time limit, the request does not return", tid)));
                continue;
            }
            let id = if k.wait_deadlock { "blocks-forever-in-wait" } else { "unbounded-loop" };
            out.push(v("C02", id, format!("budget exhausted after {} simulated calls / {} ms simulated time / {} MiB moved", k.seq, k.clock_ns / 1_000_000, k.bytes_moved >> 20)));
        }
        for p in &k.gt.dev_opens {
            let user = match &sc.workload {
                Workload::Dump(dp) => dp.opts.user_mappings.iter().any(|u| u.name.as_ref().map(|n| n.0 == *p).unwrap_or(false)),
                _ => false,
            };
            let mapped = user || sc.world.regions.iter().any(|r| r.name.0 == *p);
            if mapped {
                out.push(v("C02", "dev-file-opened", format!("opened mapped file {}", String::from_utf8_lossy(p))));
            }
        }
    }
    out
}
