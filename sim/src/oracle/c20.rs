//! C20 — unreferenced-stack filtering keeps exactly the relevant stacks.

use super::{util, v, Violation};
use crate::decode;
use crate::run::{DumpRes, RunResult};
use crate::scenario::*;

/// does the stack of a thread with (ip, sp) reference [lo, hi)?
fn references(k: &crate::kernel::Kernel, ip: u64, sp: u64, lo: u64, hi: u64) -> Option<bool> {
    references_upto(k, ip, sp, lo, hi, u64::MAX)
}

/// like `references`, but only words below `limit_end` count
fn references_upto(k: &crate::kernel::Kernel, ip: u64, sp: u64, lo: u64, hi: u64, limit_end: u64) -> Option<bool> {
    if ip >= lo && ip < hi {
        return Some(true);
    }
    let w = &k.world;
    let (_mlo, mhi) = util::mapping_hull(w, sp)?;
    let mhi = mhi.min(limit_end);
    let mut a = (sp + 7) & !7;
    while a + 8 <= mhi {
        let b = k.read_mem_captured(a, 8);
        let val = u64::from_le_bytes(b.try_into().unwrap());
        if val >= lo && val < hi {
            return Some(true);
        }
        a += 8;
    }
    Some(false)
}

pub fn check(sc: &Scenario, res: &RunResult) -> Vec<Violation> {
    let mut out = Vec::new();
    let Some(opts) = util::dump_opts(sc) else { return out };
    if !opts.skip_unref {
        return out;
    }
    let Some(d) = res.dumps.first() else { return out };
    let img = match &d.result {
        DumpRes::Ok(i) => i,
        DumpRes::Err(e) => {
            out.push(v("C20", "dump-failed", format!("stack skipping enabled and the dump failed: {}", e.chars().take(200).collect::<String>())));
            return out;
        }
        DumpRes::Panic(_) => return out, // C02's subject
    };
    let dec = decode::decode(img);
    let Some(threads) = &dec.threads else { return out };
    let k = &d.kernel_after;
    let w = &k.world;
    let principal = opts.principal.and_then(|a| util::mapping_hull(w, a));
    let soft = util::soft_errors_text(&dec);
    let reported = soft.contains("PrincipalMappingNotReferenced");
    for t in threads {
        let tid = t.tid as i32;
        let is_crash = opts.crash.is_some() && tid == opts.blamed;
        let (ip, sp) = if is_crash {
            let g = &opts.crash.as_ref().unwrap().gregs;
            (g[crate::profiles::REG_RIP] as u64, g[crate::profiles::REG_RSP] as u64)
        } else {
            match &t.ctx {
                Some(c) => (c.rip, c.rsp),
                None => {
                    out.push(v("C20", "context-missing", format!("thread {} has no context", tid)));
                    continue;
                }
            }
        };
        if t.ctx.is_none() {
            out.push(v("C20", "context-missing", format!("thread {} has no context", tid)));
        }
        let sp_readable = util::region_of(w, sp).map(|r| r.readable()).unwrap_or(false);
        if !sp_readable {
            continue;
        }
        let want = match principal {
            None => Some(false),
            Some((lo, hi)) => references(k, ip, sp, lo, hi),
        };
        let Some(mut want) = want else { continue };
        let have = t.stack_size > 0;
        // a thread whose stack may be shortened by the size limit: a reference that lies beyond the
        // 2 KiB that can be captured is not something the statement decides either way
        let idx = threads.iter().position(|x| x.tid == t.tid).unwrap_or(0);
        if opts.size_limit.is_some() && idx >= 20 && !is_crash && want {
            if let Some((lo, hi)) = principal {
                let chunk_end = (sp & !2047) + 2048;
                let near = references_upto(k, ip, sp, lo, hi, chunk_end).unwrap_or(false);
                if !near {
                    if !have {
                        continue;
                    }
                    want = have;
                }
            }
        }
        if want && !have {
            out.push(v("C20", "referencing-stack-dropped", format!("thread {} references the principal mapping {:x?} but its stack is empty", tid, principal)));
        }
        if !want && have {
            // distinguish the boundary case for the report
            let edge = principal.map(|(_, hi)| {
                ip == hi || {
                    let (_l, mh) = util::mapping_hull(w, sp).unwrap_or((0, 0));
                    let mut a = (sp + 7) & !7;
                    let mut f = false;
                    while a + 8 <= mh {
                        let b = k.read_mem_captured(a, 8);
                        if u64::from_le_bytes(b.try_into().unwrap()) == hi {
                            f = true;
                            break;
                        }
                        a += 8;
                    }
                    f
                }
            });
            let id = if edge == Some(true) { "unreferencing-stack-kept-end-address" } else { "unreferencing-stack-kept" };
            out.push(v("C20", id, format!("thread {} does not reference the principal mapping {:x?} (ip {:#x}) but {} stack bytes are included", tid, principal, ip, t.stack_size)));
        }
    }
    // soft error
    if opts.principal.is_some() && principal.is_none() && !reported {
        out.push(v("C20", "no-mapping-unreported", "principal address matches no mapping and no soft error was recorded".into()));
    }
    if let (Some(cs), Some((lo, hi))) = (&opts.crash, principal) {
        let ip = cs.gregs[crate::profiles::REG_RIP] as u64;
        let sp = cs.gregs[crate::profiles::REG_RSP] as u64;
        let sp_readable = util::region_of(w, sp).map(|r| r.readable()).unwrap_or(false);
        let blamed_listed = threads.iter().any(|t| t.tid == opts.blamed as u32);
        if sp_readable && blamed_listed {
            if let Some(r) = references(k, ip, sp, lo, hi) {
                if !r && !reported {
                    out.push(v("C20", "crash-thread-unreferencing-unreported", "the crashing thread does not reference the principal mapping and no soft error was recorded".into()));
                }
                if r && reported {
                    out.push(v("C20", "spurious-not-referenced-error", "the crashing thread references the principal mapping but PrincipalMappingNotReferenced was recorded".into()));
                }
            }
        }
    }
    out
}
