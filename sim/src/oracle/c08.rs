//! C08 — the module list reflects the loaded ELF images.

use super::{util, v, Violation};
use crate::decode;
use crate::elfref;
use crate::run::RunResult;
use crate::scenario::*;

pub struct Group {
    pub inode: u64,
    pub start: u64,
    pub end: u64,
    pub offset: u64,
    pub exec: bool,
    pub name: Vec<u8>,
    pub deleted: bool,
}

/// Grouping of memory-map lines as the statements describe it: contiguous lines merge when they
/// carry the same name, or when the line is the loader's inaccessible reserved gap (anonymous,
/// private, no permissions) directly after, or between two parts of, an executable file mapping.
pub fn groups(w: &World) -> Vec<Group> {
    let mut out: Vec<Group> = Vec::new();
    let rs = &w.regions;
    let mut i = 0usize;
    while i < rs.len() {
        let r = &rs[i];
        let is_gap = |x: &RegionSpec| x.name.0.is_empty() && x.perms == "---p" && x.offset == 0;
        if let Some(g) = out.last_mut() {
            let contiguous = g.end == r.start;
            // the memory map shows a deleted file as "<path> (deleted)": not the same name as "<path>"
            // ... and two files can show the same name (memfds of one name, unlinked files that had the same
            // path): a group is the mappings of one file
            if contiguous && !g.name.is_empty() && g.name == r.name.0 && g.deleted == r.deleted && g.inode == r.inode {
                g.end = r.end();
                g.exec |= r.perms.as_bytes()[2] == b'x';
                i += 1;
                continue;
            }
            if contiguous && !g.name.is_empty() && is_gap(r) {
                // directly after an executable file mapping
                let after_exec = g.exec;
                // or between two parts of the same file
                let between = rs.get(i + 1).map(|n| n.start == r.end() && n.name.0 == g.name && n.deleted == g.deleted && n.inode == g.inode).unwrap_or(false);
                if after_exec || between {
                    g.end = r.end();
                    i += 1;
                    continue;
                }
            }
        }
        out.push(Group {
            inode: r.inode,
            start: r.start,
            end: r.end(),
            offset: r.offset,
            exec: r.perms.as_bytes()[2] == b'x',
            name: if r.name.0.contains(&b'/') { r.name.0.clone() } else { Vec::new() },
            deleted: r.deleted,
        });
        i += 1;
    }
    out.retain(|g| !g.name.is_empty());
    out
}

fn expected_name(g: &Group, soname: Option<String>) -> String {
    let path = g.name.clone();
    match soname {
        None => String::from_utf8_lossy(&path).into_owned(),
        Some(s) => {
            if g.exec && g.offset != 0 {
                let mut p = path;
                if !p.ends_with(b"/") {
                    p.push(b'/');
                }
                p.extend_from_slice(s.as_bytes());
                String::from_utf8_lossy(&p).into_owned()
            } else {
                let cut = path.iter().rposition(|c| *c == b'/').map(|i| i + 1).unwrap_or(0);
                let mut p = path[..cut].to_vec();
                p.extend_from_slice(s.as_bytes());
                String::from_utf8_lossy(&p).into_owned()
            }
        }
    }
}

pub fn check(sc: &Scenario, res: &RunResult) -> Vec<Violation> {
    let mut out = Vec::new();
    let Some(opts) = util::dump_opts(sc) else { return out };
    let Some((d, img)) = util::first_ok(res) else { return out };
    let dec = decode::decode(img);
    let Some(mods) = &dec.modules else {
        out.push(v("C08", "module-list-missing", "no module list".into()));
        return out;
    };
    let k = &d.kernel_after;
    let w = &k.world;
    let nuser = opts.user_mappings.len();
    if mods.len() < nuser {
        out.push(v("C08", "user-mappings-missing", format!("{} modules, {} user mappings", mods.len(), nuser)));
        return out;
    }
    // the module that holds the program's entry point is first - also when it is one the caller supplied
    let entry_addr = opts.direct_auxv.as_ref().map(|d| d[3]).filter(|x| *x != 0).or_else(|| if w.auxv_missing || w.threads.first().map(|t| t.zombie && !w.threads.iter().skip(1).any(|t| !t.zombie)).unwrap_or(false) { None } else { w.auxv.iter().find(|(k, _)| *k == 9).map(|(_, v)| *v) });
    let head_user: Option<usize> = entry_addr.and_then(|e| opts.user_mappings.iter().position(|u| e >= u.start && e - u.start < u.size.min(u32::MAX as u64)));
    let mut user_order: Vec<usize> = (0..nuser).collect();
    let (target_mods, user_mods): (&[decode::ModRec], Vec<&decode::ModRec>) = match head_user {
        Some(i) => {
            user_order.retain(|x| *x != i);
            user_order.insert(0, i);
            let rest = &mods[1..];
            let (t, tail) = rest.split_at(rest.len() - (nuser - 1));
            let mut um: Vec<&decode::ModRec> = vec![&mods[0]];
            um.extend(tail.iter());
            (t, um)
        }
        None => {
            let (t, tail) = mods.split_at(mods.len() - nuser);
            (t, tail.iter().collect())
        }
    };
    // user mappings verbatim: the one holding the entry point first, the others in order after the target's modules
    for (m, u) in user_mods.iter().zip(user_order.iter().map(|i| &opts.user_mappings[*i])) {
        let want_name = u.name.as_ref().map(|n| String::from_utf8_lossy(&n.0).into_owned()).unwrap_or_default();
        let mut want_cv = 0x4270_454cu32.to_le_bytes().to_vec();
        want_cv.extend_from_slice(&u.identifier.0);
        if m.base != u.start || m.size as u64 != u.size || m.name.as_deref() != Some(want_name.as_str()) || (!u.identifier.0.is_empty() && m.cv != want_cv) {
            out.push(v("C08", "user-mapping-not-verbatim", format!("listed {:#x}+{} {:?}, supplied {:#x}+{} {:?}", m.base, m.size, m.name, u.start, u.size, want_name)));
        }
    }
    let contained = |g: &Group| opts.user_mappings.iter().any(|u| g.start >= u.start && g.end <= u.start + u.size);
    let mut expected_bases: Vec<u64> = Vec::new();
    for g in groups(w) {
        let size = g.end - g.start;
        let mem = k.read_mem_captured(g.start, size.min(0x20000) as usize);
        let file = if g.deleted { None } else { w.files.iter().find(|f| f.path.0 == g.name) };
        let mem_elf = elfref::parse(&mem);
        let mut id = mem_elf.as_ref().and_then(|e| e.build_id_mem());
        let file_elf = file.and_then(|f| f.content.0.get(g.offset as usize..)).and_then(elfref::parse);
        if id.is_none() {
            // only when the memory image really starts with an ELF header is the file consulted
            if mem_elf.is_some() {
                id = file_elf.as_ref().and_then(|e| e.build_id());
            }
        }
        let Some(id) = id else { continue };
        if id.iter().all(|b| *b == 0) {
            if target_mods.iter().any(|m| m.base == g.start) {
                out.push(v("C08", "all-zero-id-listed", format!("{} at {:#x}", String::from_utf8_lossy(&g.name), g.start)));
            }
            continue;
        }
        if contained(&g) {
            if target_mods.iter().any(|m| m.base == g.start) {
                out.push(v("C08", "contained-mapping-listed", format!("{} at {:#x} lies wholly inside a user mapping but is listed", String::from_utf8_lossy(&g.name), g.start)));
            }
            continue;
        }
        expected_bases.push(g.start);
        let hits: Vec<&decode::ModRec> = target_mods.iter().filter(|m| m.base == g.start).collect();
        if hits.len() != 1 {
            let id_s = if hits.is_empty() { "module-missing" } else { "module-duplicated" };
            out.push(v("C08", id_s, format!("{} at {:#x}+{:#x} with build id {:02x?}: {} entries", String::from_utf8_lossy(&g.name), g.start, size, &id[..id.len().min(6)], hits.len())));
            continue;
        }
        let m = hits[0];
        // the size field is 32 bits wide: an extent it cannot hold is recorded as the largest value
        if m.size as u64 != size.min(u32::MAX as u64) {
            out.push(v("C08", "module-extent", format!("{}: size {:#x}, merged extent {:#x}", String::from_utf8_lossy(&g.name), m.size, size)));
        }
        let mut want_cv = 0x4270_454cu32.to_le_bytes().to_vec();
        want_cv.extend_from_slice(&id);
        if m.cv != want_cv {
            out.push(v("C08", "module-build-id", format!("{}: debug record {:02x?}, expected BpEL + {:02x?}", String::from_utf8_lossy(&g.name), &m.cv[..m.cv.len().min(12)], &id[..id.len().min(8)])));
        }
        let so = file_elf.as_ref().and_then(|e| e.soname()).or_else(|| mem_elf.as_ref().and_then(|e| e.soname_mem(g.start)));
        let want = expected_name(&g, so.clone());
        // a deleted file whose path holds a different file now: the SONAME of that other file must not name this module
        let replacement_so = if g.deleted { w.files.iter().find(|f| f.path.0 == g.name).and_then(|f| elfref::parse(&f.content.0).and_then(|e| e.soname())) } else { None };
        if m.name.as_deref() != Some(want.as_str()) && replacement_so.is_some() && m.name.as_deref() == Some(expected_name(&g, replacement_so.clone()).as_str()) {
            out.push(v("C08", "deleted-module-named-after-replacement-file", format!("{:?}: the mapped file is deleted and its image carries no SONAME; the name comes from the DT_SONAME {:?} of the different file that now has this path", m.name, replacement_so)));
        } else if m.name.as_deref() != Some(want.as_str()) {
            out.push(v("C08", "module-name", format!("{:?} != {:?} (path {:?}, soname {:?}, offset {:#x}, exec {})", m.name, want, String::from_utf8_lossy(&g.name), so, g.offset, g.exec)));
        }
    }
    // entry-point module first
    let entry = opts.direct_auxv.as_ref().map(|d| d[3]).filter(|x| *x != 0).or_else(|| if w.auxv_missing { None } else { w.auxv.iter().find(|(k, _)| *k == 9).map(|(_, v)| *v) });
    if let Some(e) = entry {
        if let Some(owner) = target_mods.iter().find(|m| e >= m.base && e < m.base + m.size as u64) {
            if let Some(first) = target_mods.first() {
                if first.base != owner.base {
                    out.push(v("C08", "entry-module-not-first", format!("entry point {:#x} is in the module at {:#x}, first module is at {:#x}", e, owner.base, first.base)));
                }
            }
        }
    }
    // no overlap among the target's modules
    let mut sorted: Vec<&decode::ModRec> = target_mods.iter().collect();
    sorted.sort_by_key(|m| m.base);
    for pair in sorted.windows(2) {
        if pair[0].base + pair[0].size as u64 > pair[1].base {
            out.push(v("C08", "modules-overlap", format!("{:#x}+{:#x} and {:#x}", pair[0].base, pair[0].size, pair[1].base)));
        }
    }
    // nothing listed that is not a mapping of the target holding an ELF image
    for m in target_mods {
        if expected_bases.contains(&m.base) {
            continue;
        }
        let Some(r) = util::region_of(w, m.base) else {
            out.push(v("C08", "module-not-a-mapping", format!("module at {:#x}", m.base)));
            continue;
        };
        if r.start != m.base && util::mapping_hull(w, m.base).map(|h| h.0) != Some(m.base) {
            out.push(v("C08", "module-not-at-mapping-start", format!("module at {:#x}", m.base)));
        }
    }
    out
}
