//! C11 — best-effort steps fail softly and every failure is reported.

use super::{c01, digest, util, v, Violation};
use crate::decode;
use crate::run::{DumpRes, RunResult};
use crate::scenario::*;
use serde_json::Value;

fn count_key(val: &Value, key: &str) -> usize {
    match val {
        Value::Object(m) => m.iter().map(|(k, x)| (if k == key { 1 } else { 0 }) + count_key(x, key)).sum(),
        Value::Array(a) => a.iter().map(|x| count_key(x, key)).sum(),
        Value::String(s) => {
            if s == key {
                1
            } else {
                0
            }
        }
        _ => 0,
    }
}

/// does `key` occur somewhere below an object key `under`?
fn key_under(val: &Value, under: &str, key: &str) -> bool {
    match val {
        Value::Object(m) => {
            if under == "*" {
                return count_key(val, key) > 0;
            }
            m.iter().any(|(k, x)| (k == under && count_key(x, key) > 0) || key_under(x, under, key))
        }
        Value::Array(a) => a.iter().any(|x| key_under(x, under, key)),
        Value::String(s) => under == "*" && s == key,
        _ => false,
    }
}

pub fn check(sc: &Scenario, res: &RunResult, twin: Option<&RunResult>) -> Vec<Violation> {
    let mut out = Vec::new();
    let Some(d) = res.dumps.first() else { return out };
    let img = match &d.result {
        DumpRes::Ok(i) => i,
        DumpRes::Err(e) => {
            out.push(v("C11", "dump-failed", format!("only best-effort steps failed ({}) but the dump failed: {}", sc.tags.join(","), e.chars().take(300).collect::<String>())));
            return out;
        }
        DumpRes::Panic(p) => {
            out.push(v("C11", "dump-panicked", p.clone()));
            return out;
        }
    };
    for x in c01::check_image(img) {
        out.push(v("C11", &format!("structure-{}", x.oracle), x.detail));
    }
    let dec = decode::decode(img);
    let Some(se) = &dec.soft_errors else {
        out.push(v("C11", "soft-error-stream-missing", "no MozSoftErrors stream".into()));
        return out;
    };
    let val: Value = match serde_json::from_slice(se) {
        Ok(x) => x,
        Err(e) => {
            out.push(v("C11", "soft-errors-not-json", format!("{}", e)));
            return out;
        }
    };
    if !val.is_array() {
        out.push(v("C11", "soft-errors-not-a-list", format!("{}", String::from_utf8_lossy(se).chars().take(200).collect::<String>())));
        return out;
    }
    let expects: Vec<(&str, &str)> = sc
        .tags
        .iter()
        .filter_map(|t| t.strip_prefix("expect:"))
        .filter_map(|t| t.split_once('/'))
        .collect();
    if expects.is_empty() && !sc.tags.iter().any(|t| t == "may-fail-naturally") {
        if val.as_array().map(|a| !a.is_empty()).unwrap_or(false) {
            out.push(v("C11", "soft-errors-not-empty", format!("nothing was injected and nothing failed, yet the list is {}", String::from_utf8_lossy(se).chars().take(300).collect::<String>())));
        }
    }
    for (under, key) in &expects {
        if !key_under(&val, under, key) {
            out.push(v("C11", &format!("failure-not-reported-{}", key), format!("expected {} under {} in {}", key, under, String::from_utf8_lossy(se).chars().take(400).collect::<String>())));
        }
    }
    // what does not depend on the failed source must still be there: platform and CPU architecture
    // are known without /proc/cpuinfo
    if let Some(si) = &dec.sysinfo {
        if si.platform != 0x8201 || si.arch != 9 {
            out.push(v("C11", "sysinfo-arch-lost", format!("system info names platform {:#x} architecture {} ({})", si.platform, si.arch, sc.tags.join(","))));
        }
    } else {
        out.push(v("C11", "sysinfo-stream-missing", "no system info stream".into()));
    }
    // one ReadThreadNameFailed per name the kernel could not deliver
    let k = &d.kernel_after;
    let mut failed_names = 0usize;
    if let Some(o) = util::dump_opts(sc) {
        if o.failspots & 4 != 0 {
            failed_names = k.gt.enumerated.len();
        } else {
            for tid in &k.gt.enumerated {
                let path = format!("/proc/{}/task/{}/comm", k.world.pid, tid).into_bytes();
                let open_failed = k.gt.opens.iter().any(|(p, c)| *p == path && *c != 0);
                let mut bad = open_failed;
                for (gi, (p, bytes)) in k.gt.file_reads.iter().enumerate() {
                    if *p == path && (k.gt.read_failed.contains(&gi) || std::str::from_utf8(bytes).is_err()) {
                        bad = true;
                    }
                }
                if bad {
                    failed_names += 1;
                }
            }
        }
    }
    let reported = count_key(&val, "ReadThreadNameFailed");
    if reported != failed_names {
        out.push(v("C11", "thread-name-failures-miscounted", format!("{} names could not be read, {} ReadThreadNameFailed entries", failed_names, reported)));
    }
    // all other streams intact: equal to the failure-free twin
    if let Some(t) = twin {
        if let Some(timg) = t.dumps.first().and_then(|d| d.result.image()) {
            let tdec = decode::decode(timg);
            let a = digest::digest(&dec, img);
            let b = digest::digest(&tdec, timg);
            let affected: Vec<&str> = sc.tags.iter().filter_map(|t| t.strip_prefix("affects:")).collect();
            for (name, content) in &b {
                if affected.contains(&name.as_str()) {
                    continue;
                }
                match a.get(name) {
                    None => out.push(v("C11", &format!("unrelated-stream-lost-{}", name), format!("stream {} is present without the failures ({}) and missing with them", name, sc.tags.join(",")))),
                    Some(x) if x != content => out.push(v("C11", &format!("unrelated-stream-changed-{}", name), format!("stream {} differs from the failure-free twin ({})", name, sc.tags.join(",")))),
                    _ => {}
                }
            }
        }
    }
    out
}

/// the same scenario with every failure removed
pub fn twin_of(sc: &Scenario) -> Scenario {
    let mut t = sc.clone();
    t.faults.clear();
    t.events.clear();
    if let Workload::Dump(p) = &mut t.workload {
        p.opts.failspots = 0;
        p.opts.stop_timeout_ms = None;
    }
    let w = &mut t.world;
    for th in w.threads.iter_mut() {
        th.comm_fault = None;
        th.stop_latency_ns = 0;
        th.foreign_tracer = false;
    }
    w.plants.retain(|(a, _)| !(*a >= crate::gen::EXE_BASE && *a < crate::gen::HEAP_BASE));
    w.auxv_cut = 0;
    w.auxv_missing = false;
    w.fd_dir_fails = false;
    w.uname_fails = false;
    t
}
