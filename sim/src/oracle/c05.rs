//! C05 — crash attribution matches what the caller supplied.

use super::{util, v, Violation};
use crate::decode::{self, Ctx};
use crate::profiles::{REG_CSGSFS, REG_EFL};
use crate::run::RunResult;
use crate::scenario::*;

const DUMP_REQUESTED: u32 = 0xFFFF_FFFF;

/// compare a decoded context with the supplied crash context; returns mismatching field names
pub fn ctx_vs_crash(c: &Ctx, cs: &CrashSpec) -> Vec<String> {
    let g = &cs.gregs;
    let mut bad = Vec::new();
    let want: Vec<(&str, u64, u64)> = vec![
        ("r8", c.r8, g[0] as u64),
        ("r9", c.r9, g[1] as u64),
        ("r10", c.r10, g[2] as u64),
        ("r11", c.r11, g[3] as u64),
        ("r12", c.r12, g[4] as u64),
        ("r13", c.r13, g[5] as u64),
        ("r14", c.r14, g[6] as u64),
        ("r15", c.r15, g[7] as u64),
        ("rdi", c.rdi, g[8] as u64),
        ("rsi", c.rsi, g[9] as u64),
        ("rbp", c.rbp, g[10] as u64),
        ("rbx", c.rbx, g[11] as u64),
        ("rdx", c.rdx, g[12] as u64),
        ("rax", c.rax, g[13] as u64),
        ("rcx", c.rcx, g[14] as u64),
        ("rsp", c.rsp, g[15] as u64),
        ("rip", c.rip, g[16] as u64),
        ("eflags", c.eflags as u64, (g[REG_EFL] as u64) & 0xffff_ffff),
        ("cs", c.cs as u64, (g[REG_CSGSFS] as u64) & 0xffff),
        ("gs", c.gs as u64, ((g[REG_CSGSFS] as u64) >> 16) & 0xffff),
        ("fs", c.fs as u64, ((g[REG_CSGSFS] as u64) >> 32) & 0xffff),
        // the kernel keeps ss in the top 16 bits of the same slot (struct sigcontext: cs, gs, fs, ss)
        ("ss", c.ss as u64, ((g[REG_CSGSFS] as u64) >> 48) & 0xffff),
    ];
    for (n, got, w) in want {
        if got != w {
            bad.push(format!("{} {:#x} != {:#x}", n, got, w));
        }
    }
    let f = &c.float_save;
    let fp = &cs.fp;
    let u16at = |o: usize| u16::from_le_bytes([f[o], f[o + 1]]);
    let u32at = |o: usize| u32::from_le_bytes([f[o], f[o + 1], f[o + 2], f[o + 3]]);
    let fchecks: Vec<(&str, u64, u64)> = vec![
        ("fp.control_word", u16at(0) as u64, fp.cwd as u64),
        ("fp.status_word", u16at(2) as u64, fp.swd as u64),
        ("fp.tag_word", f[4] as u64, (fp.ftw & 0xff) as u64),
        ("fp.error_opcode", u16at(6) as u64, fp.fop as u64),
        ("fp.error_offset", u32at(8) as u64, fp.rip & 0xffff_ffff),
        ("fp.data_offset", u32at(16) as u64, fp.rdp & 0xffff_ffff),
        ("fp.mx_csr", u32at(24) as u64, fp.mxcsr as u64),
        // the context keeps MXCSR a second time, as a member of its own (the one readers print)
        ("mx_csr", c.mx_csr as u64, fp.mxcsr as u64),
        ("fp.mx_csr_mask", u32at(28) as u64, fp.mxcr_mask as u64),
    ];
    for (n, got, w) in fchecks {
        if got != w {
            bad.push(format!("{} {:#x} != {:#x}", n, got, w));
        }
    }
    for (i, w) in fp.st.iter().enumerate().take(32) {
        if u32at(32 + i * 4) != *w {
            bad.push(format!("fp.st[{}]", i));
            break;
        }
    }
    for (i, w) in fp.xmm.iter().enumerate().take(64) {
        if u32at(160 + i * 4) != *w {
            bad.push(format!("fp.xmm[{}]", i));
            break;
        }
    }
    bad
}

pub fn check(sc: &Scenario, res: &RunResult) -> Vec<Violation> {
    let mut out = Vec::new();
    let Some(opts) = util::dump_opts(sc) else { return out };
    let Some((d, img)) = util::first_ok(res) else { return out };
    let dec = decode::decode(img);
    let Some(x) = &dec.exception else {
        out.push(v("C05", "exception-stream-missing", "successful dump without an exception stream".into()));
        return out;
    };
    let blamed = opts.blamed as u32;
    if x.tid != blamed {
        out.push(v("C05", "exception-thread-id", format!("exception names thread {}, blamed thread is {}", x.tid, blamed)));
    }
    let listed = dec.threads.as_ref().and_then(|ts| ts.iter().find(|t| t.tid == blamed));
    match &opts.crash {
        Some(cs) => {
            if x.code != cs.signo {
                out.push(v("C05", "exception-code", format!("code {} != signal {}", x.code, cs.signo)));
            }
            if x.flags != cs.code as u32 {
                out.push(v("C05", "exception-flags", format!("flags {} != si_code {}", x.flags, cs.code)));
            }
            if x.address != cs.addr {
                out.push(v("C05", "exception-address", format!("address {:#x} != fault address {:#x}", x.address, cs.addr)));
            }
            match &x.ctx {
                None => {
                    let id = if listed.is_some() { "exception-context-missing" } else { "exception-context-missing-blamed-thread-absent" };
                    out.push(v("C05", id, format!("crash context supplied but the exception record points at no context (blamed thread {} {})", blamed, if listed.is_some() { "listed" } else { "not among the captured threads" })));
                }
                Some(c) => {
                    let bad = ctx_vs_crash(c, cs);
                    if !bad.is_empty() {
                        out.push(v("C05", "exception-context-differs", format!("{} fields differ from the supplied context: {}", bad.len(), bad.iter().take(4).cloned().collect::<Vec<_>>().join("; "))));
                    }
                }
            }
            if let Some(t) = listed {
                if (t.ctx_rva, t.ctx_size) != (x.ctx_rva, x.ctx_size) {
                    out.push(v("C05", "blamed-thread-context-not-shared", format!("thread entry context at {:#x}+{}, exception context at {:#x}+{}", t.ctx_rva, t.ctx_size, x.ctx_rva, x.ctx_size)));
                }
                if let Some(c) = &t.ctx {
                    let bad = ctx_vs_crash(c, cs);
                    if !bad.is_empty() {
                        out.push(v("C05", "blamed-thread-context-differs", format!("{}", bad.iter().take(4).cloned().collect::<Vec<_>>().join("; "))));
                    }
                }
            }
        }
        None => {
            if x.code != DUMP_REQUESTED {
                out.push(v("C05", "exception-code", format!("code {:#x} != DUMP_REQUESTED", x.code)));
            }
            if let Some(t) = listed {
                let k = &d.kernel_after;
                if let Some(i) = k.thread_idx(opts.blamed) {
                    if let Some(regs) = k.threads[i].getregs_val {
                        if x.address != regs[R_RIP] {
                            out.push(v("C05", "exception-address", format!("address {:#x} != blamed thread's instruction pointer {:#x}", x.address, regs[R_RIP])));
                        }
                    }
                }
                if (t.ctx_rva, t.ctx_size) != (x.ctx_rva, x.ctx_size) || t.ctx_size == 0 {
                    out.push(v("C05", "exception-context-not-blamed-thread", format!("thread entry context at {:#x}+{}, exception context at {:#x}+{}", t.ctx_rva, t.ctx_size, x.ctx_rva, x.ctx_size)));
                }
            }
        }
    }
    out
}
