//! C04 — the thread list is a complete, register-accurate, consistent snapshot.

use super::{util, v, Violation};
use crate::decode;
use crate::kernel::Life;
use crate::run::{DumpRes, RunResult};
use crate::scenario::*;
use std::collections::BTreeMap;

pub fn check(sc: &Scenario, res: &RunResult) -> Vec<Violation> {
    let mut out = Vec::new();
    let Some(opts) = util::dump_opts(sc) else { return out };
    // A target that nothing happens to (no scheduled event, no injected fault): every thread can be
    // listed, so the request has to produce a thread list at all; whatever the threads are called.
    if sc.events.is_empty() && sc.faults.is_empty() {
        if let Some(d0) = res.dumps.first() {
            if let DumpRes::Err(e) = &d0.result {
                out.push(v("C04", "undisturbed-target-not-dumped", format!("nothing happens to the target, yet the request failed and lists no thread: {}", e.chars().take(200).collect::<String>())));
                return out;
            }
        }
    }
    let Some((d, img)) = util::first_ok(res) else { return out };
    let dec = decode::decode(img);
    let Some(threads) = &dec.threads else {
        out.push(v("C04", "thread-list-missing", "successful dump without a thread list".into()));
        return out;
    };
    let k = &d.kernel_after;
    let soft = util::soft_errors_text(&dec);
    // duplicates
    let mut seen: BTreeMap<u32, usize> = BTreeMap::new();
    for t in threads {
        *seen.entry(t.tid).or_insert(0) += 1;
    }
    for (tid, n) in &seen {
        if *n > 1 {
            out.push(v("C04", "thread-duplicated", format!("thread {} listed {} times", tid, n)));
        }
    }
    let exited: Vec<i32> = k.gt.exits.iter().map(|e| e.0).collect();
    let attach_failed: Vec<i32> = k.gt.attach_fail.iter().map(|e| e.0).collect();
    let initial: Vec<&ThreadSpec> = sc.world.threads.iter().collect();
    for ts in &initial {
        let tid = ts.tid;
        let Some(i) = k.thread_idx(tid) else { continue };
        let kt = &k.threads[i];
        let listed = seen.contains_key(&(tid as u32));
        let sandbox = ts.regs.get(R_RSP).copied().unwrap_or(0) == 0;
        let attachable = !ts.foreign_tracer && !ts.zombie && !attach_failed.contains(&tid);
        let throughout = !exited.contains(&tid) && kt.life == Life::Alive;
        if throughout && attachable && !sandbox && !listed && !k.dead {
            out.push(v("C04", "thread-missing", format!("thread {} exists throughout the dump and can be attached to, but is not listed ({} listed)", tid, threads.len())));
        }
        if sandbox && listed {
            out.push(v("C04", "sandbox-thread-listed", format!("thread {} has a null stack pointer but is listed", tid)));
        }
        if exited.contains(&tid) && k.gt.enumerated.contains(&tid) && !listed {
            // omitted: must be reported
            if !soft.contains(&tid.to_string()) {
                out.push(v("C04", "exited-thread-unreported", format!("thread {} was enumerated, exited during the dump, is omitted and no soft error mentions it", tid)));
            }
        }
    }
    // register accuracy
    for t in threads {
        let tid = t.tid as i32;
        let is_crash_thread = opts.crash.is_some() && tid == opts.blamed;
        let Some(i) = k.thread_idx(tid) else {
            out.push(v("C04", "unknown-thread-listed", format!("thread id {} is not a thread of the target", tid)));
            continue;
        };
        let kt = &k.threads[i];
        let Some(c) = &t.ctx else {
            out.push(v("C04", "context-missing", format!("thread {} has no context", tid)));
            continue;
        };
        if is_crash_thread {
            continue; // C05's subject
        }
        let Some(regs) = kt.regs_at_stop else {
            out.push(v("C04", "listed-thread-never-stopped", format!("thread {} is listed but never reached its attach stop", tid)));
            continue;
        };
        let mut bad: Vec<String> = Vec::new();
        for ((n, got), (_, want)) in util::ctx_gprs(c).into_iter().zip(util::regs_gprs(&regs)) {
            if got != want {
                // does it carry another thread's value?
                let other = k.threads.iter().find(|o| o.tid != tid && util::regs_gprs(&o.regs).iter().any(|(nn, vv)| *nn == n && *vv == got));
                bad.push(match other {
                    Some(o) => format!("{} {:#x} is thread {}'s value (own {:#x})", n, got, o.tid, want),
                    None => format!("{} {:#x} != {:#x}", n, got, want),
                });
            }
        }
        let segs: Vec<(&str, u64, u64)> = vec![
            ("eflags", c.eflags as u64, regs[R_EFLAGS] & 0xffff_ffff),
            ("cs", c.cs as u64, regs[R_CS] & 0xffff),
            ("ds", c.ds as u64, regs[R_DS] & 0xffff),
            ("es", c.es as u64, regs[R_ES] & 0xffff),
            ("fs", c.fs as u64, regs[R_FS] & 0xffff),
            ("gs", c.gs as u64, regs[R_GS] & 0xffff),
            ("ss", c.ss as u64, regs[R_SS] & 0xffff),
            ("dr0", c.dr[0], kt.dregs[0]),
            ("dr1", c.dr[1], kt.dregs[1]),
            ("dr2", c.dr[2], kt.dregs[2]),
            ("dr3", c.dr[3], kt.dregs[3]),
            ("dr6", c.dr[4], kt.dregs[6]),
            ("dr7", c.dr[5], kt.dregs[7]),
        ];
        for (n, got, want) in segs {
            if got != want {
                bad.push(format!("{} {:#x} != {:#x}", n, got, want));
            }
        }
        // MXCSR is kept a second time as a member of the context itself
        let mxcsr = u32::from_le_bytes([kt.fp[24], kt.fp[25], kt.fp[26], kt.fp[27]]);
        if c.mx_csr != mxcsr {
            bad.push(format!("mx_csr {:#x} != {:#x}", c.mx_csr, mxcsr));
        }
        if c.float_save[..416] != kt.fp[..416] {
            let p = (0..416).find(|i| c.float_save[*i] != kt.fp[*i]).unwrap();
            bad.push(format!("fp/sse state differs at byte {}", p));
        }
        if !bad.is_empty() {
            out.push(v("C04", "context-differs", format!("thread {}: {}", tid, bad.iter().take(3).cloned().collect::<Vec<_>>().join("; "))));
        }
        // single instant (kernel-side): no step between register capture and the last remote read
        if let (Some(g), Some(s)) = (kt.getregs_seq, kt.step_after_getregs) {
            if s > g && s <= k.gt.last_mem_read_seq {
                out.push(v("C04", "thread-ran-inside-capture", format!("thread {} executed at call #{} after its registers were read (#{}) and before the last remote memory read (#{})", tid, s, g, k.gt.last_mem_read_seq)));
            }
        }
        // single instant (content-side) for spinners
        if let Some(ts) = sc.world.threads.iter().find(|x| x.tid == tid) {
            if let Program::Spinner { stack_slot, app_word } = ts.program {
                for (what, addr) in [("stack slot", stack_slot), ("application word", app_word)] {
                    if let Some(b) = util::dumped_bytes(&dec, img, addr, 8) {
                        let val = u64::from_le_bytes(b.try_into().unwrap());
                        let diff = c.r12.wrapping_sub(val);
                        if diff > 1 {
                            out.push(v("C04", "snapshot-not-single-instant", format!("thread {}: register counter {:#x}, {} in the dump {:#x}", tid, c.r12, what, val)));
                        }
                    }
                }
            }
        }
    }
    out
}
