//! C18 — OS and process information streams mirror the target.

use super::{util, v, Violation};
use crate::decode::{self, *};
use crate::kernel::Kernel;
use crate::run::RunResult;
use crate::scenario::*;

fn le64(b: &[u8], o: usize) -> u64 {
    u64::from_le_bytes(b[o..o + 8].try_into().unwrap())
}
fn le32(b: &[u8], o: usize) -> u32 {
    u32::from_le_bytes(b[o..o + 4].try_into().unwrap())
}

fn rd(k: &Kernel, addr: u64, len: usize) -> Option<Vec<u8>> {
    if k.accessible_run(addr, len as u64, false) < len as u64 {
        return None;
    }
    Some(k.read_mem_captured(addr, len))
}

pub struct DsoModel {
    pub version: u32,
    pub brk: u64,
    pub ldbase: u64,
    pub dynamic: u64,
    pub dyn_bytes: Vec<u8>,
    /// (load address, name - None when the target's bytes are not UTF-8, dynamic section)
    pub links: Vec<(u64, Option<String>, u64)>,
}

/// The linker list that (phdr, phnum) leads to, read from simulated memory.
pub fn dso_model(k: &Kernel, phdr: u64, phnum: u64) -> Option<DsoModel> {
    if phnum == 0 || phnum > 1000 {
        return None;
    }
    let ph = rd(k, phdr, (phnum * 56) as usize)?;
    let mut base = phdr & !0xfff;
    let mut dyn_v = 0u64;
    for i in 0..phnum as usize {
        let o = i * 56;
        let ty = le32(&ph, o);
        let off = le64(&ph, o + 8);
        let vaddr = le64(&ph, o + 16);
        if ty == 1 && off == 0 {
            base = base.checked_sub(vaddr)?;
        }
        if ty == 2 {
            dyn_v = vaddr;
        }
    }
    if dyn_v == 0 {
        return None;
    }
    let dyn_addr = dyn_v.checked_add(base)?;
    let mut r_debug = 0u64;
    let mut n = 0u64;
    loop {
        let e = rd(k, dyn_addr + n * 16, 16)?;
        n += 1;
        let tag = le64(&e, 0);
        if tag == 21 {
            r_debug = le64(&e, 8);
        } else if tag == 0 {
            break;
        }
        if n > 4096 {
            return None;
        }
    }
    let rdb = rd(k, r_debug, 40)?;
    let version = le32(&rdb, 0);
    let mut cur = le64(&rdb, 8);
    let brk = le64(&rdb, 16);
    let ldbase = le64(&rdb, 32);
    let mut links = Vec::new();
    let mut guard = 0;
    while cur != 0 {
        let lm = rd(k, cur, 40)?;
        let l_addr = le64(&lm, 0);
        let l_name = le64(&lm, 8);
        let l_ld = le64(&lm, 16);
        cur = le64(&lm, 24);
        let mut name = Some(String::new());
        if l_name > 0 {
            // a 256-byte read that runs into unreadable memory legitimately comes back short
            // a path is at most PATH_MAX (4096) bytes long
            let avail = k.accessible_run(l_name, 4096, false) as usize;
            if avail == 0 {
                return None;
            }
            let nb = k.read_mem_captured(l_name, avail);
            let end = nb.iter().position(|c| *c == 0).unwrap_or(nb.len());
            // the format stores UTF-16: bytes that are not UTF-8 are recorded with replacement characters
            name = Some(String::from_utf8_lossy(&nb[..end]).into_owned());
        }
        links.push((l_addr, name, l_ld));
        guard += 1;
        if guard > 10_000 {
            return None;
        }
    }
    let dyn_bytes = rd(k, dyn_addr, (n * 16) as usize)?;
    Some(DsoModel { version, brk, ldbase, dynamic: dyn_addr, dyn_bytes, links })
}

fn auxv_first(w: &World, key: u64) -> Option<u64> {
    if w.auxv_missing {
        return None;
    }
    // an exited (zombie) leader has no auxv of its own, the kernel still reports the process's
    // auxv through every other thread
    if w.threads.first().map(|t| t.zombie).unwrap_or(false) && !w.threads.iter().skip(1).any(|t| !t.zombie && !t.foreign_tracer) {
        return None;
    }
    w.auxv.iter().find(|(k, _)| *k == key).map(|(_, v)| *v)
}

fn expect_prot(perms: &str) -> Vec<u32> {
    let b = perms.as_bytes();
    let (r, w, x) = (b[0] == b'r', b[1] == b'w', b[2] == b'x');
    match (r, w, x) {
        (false, false, false) => vec![0x01],
        (false, false, true) => vec![0x10],
        (true, false, false) => vec![0x02],
        (true, false, true) => vec![0x20],
        (true, true, false) => vec![0x04],
        (true, true, true) => vec![0x40],
        // the format has no write-only protections: the nearest representable one is accepted
        (false, true, false) => vec![0x04, 0x08],
        (false, true, true) => vec![0x40, 0x80],
    }
}

pub fn check(sc: &Scenario, res: &RunResult) -> Vec<Violation> {
    let mut out = Vec::new();
    let Some(opts) = util::dump_opts(sc) else { return out };
    let Some((d, img)) = util::first_ok(res) else { return out };
    let dec = decode::decode(img);
    let k = &d.kernel_after;
    let w = &k.world;
    // 1. raw copies
    let raws: Vec<(u32, &str, Vec<u8>)> = vec![
        (ST_LINUX_CMD_LINE, "cmdline", w.cmdline.0.clone()),
        (ST_LINUX_ENVIRON, "environ", w.environ.0.clone()),
        (ST_LINUX_AUXV, "auxv", k.auxv_bytes()),
        (ST_MOZ_LINUX_LIMITS, "limits", w.limits.0.clone()),
        (ST_LINUX_MAPS, "maps", k.maps_text()),
    ];
    for (ty, name, want) in raws {
        if name == "auxv" && w.auxv_missing {
            continue;
        }
        match dec.raw.get(&ty) {
            None => {
                if !want.is_empty() || dec.streams.get(&ty).is_none() {
                    // an empty file gives an empty stream, which the decoder cannot tell from absent
                    if !want.is_empty() {
                        out.push(v("C18", &format!("raw-stream-missing-{}", name), format!("{} bytes expected", want.len())));
                    }
                }
            }
            Some(got) => {
                if *got != want {
                    let p = got.iter().zip(want.iter()).position(|(a, b)| a != b).unwrap_or(got.len().min(want.len()));
                    out.push(v("C18", &format!("raw-stream-differs-{}", name), format!("stream has {} bytes, the kernel reports {} bytes; first difference at {}", got.len(), want.len(), p)));
                }
            }
        }
    }
    // 2. memory info list
    match &dec.meminfo {
        None => out.push(v("C18", "meminfo-missing", "no memory info list".into())),
        Some(mi) => {
            if mi.len() != w.regions.len() {
                out.push(v("C18", "meminfo-count", format!("{} entries for {} memory-map lines", mi.len(), w.regions.len())));
            } else {
                for (e, r) in mi.iter().zip(w.regions.iter()) {
                    if e.base != r.start || e.size != r.len {
                        out.push(v("C18", "meminfo-range", format!("entry {:#x}+{:#x} for line {:#x}+{:#x}", e.base, e.size, r.start, r.len)));
                        break;
                    }
                    if !expect_prot(&r.perms).contains(&e.prot) {
                        out.push(v("C18", "meminfo-protection", format!("line {:#x} {}: protection {:#x}", r.start, r.perms, e.prot)));
                        break;
                    }
                    let want_ty = if r.perms.as_bytes()[3] == b'p' { 0x20000 } else { 0x40000 };
                    if e.ty != want_ty {
                        out.push(v("C18", "meminfo-type", format!("line {:#x} {}: type {:#x}", r.start, r.perms, e.ty)));
                        break;
                    }
                }
            }
        }
    }
    // 3. handles
    if !w.fd_dir_fails {
        match &dec.handles {
            None => out.push(v("C18", "handles-missing", "no handle stream".into())),
            Some(hs) => {
                for f in &w.fds {
                    if k.closed_fds.contains(&f.fd) {
                        continue;
                    }
                    let hits: Vec<&Handle> = hs.iter().filter(|h| h.handle == f.fd as u64).collect();
                    if hits.len() != 1 {
                        out.push(v("C18", "handle-count", format!("fd {}: {} descriptors", f.fd, hits.len())));
                        continue;
                    }
                    let h = hits[0];
                    // what the kernel would not tell is left blank, the descriptor is listed all the same
                    let want = if f.link_fails { String::new() } else { String::from_utf8_lossy(&f.target.0).into_owned() };
                    if h.name.as_deref() != Some(want.as_str()) {
                        out.push(v("C18", "handle-target", format!("fd {}: {:?} != link target {:?}", f.fd, h.name, want)));
                    }
                    if h.attributes != if f.stat_fails { 0 } else { f.mode } {
                        out.push(v("C18", "handle-mode", format!("fd {}: attributes {:#o} != st_mode {:#o}", f.fd, h.attributes, f.mode)));
                    }
                }
                for h in hs {
                    if !w.fds.iter().any(|f| f.fd as u64 == h.handle) {
                        out.push(v("C18", "handle-unknown", format!("descriptor for fd {} which the target does not have", h.handle)));
                    }
                }
            }
        }
    }
    // 4. system info
    match &dec.sysinfo {
        None => out.push(v("C18", "sysinfo-missing", "no system info".into())),
        Some(s) => {
            if s.platform != 0x8201 {
                out.push(v("C18", "sysinfo-platform", format!("{:#x}", s.platform)));
            }
            if s.arch != 9 {
                out.push(v("C18", "sysinfo-arch", format!("{}", s.arch)));
            }
            if !w.uname_fails {
                let want = format!("{} {} {} {}", w.uname[0], w.uname[1], w.uname[2], w.uname[3]);
                if s.csd.as_deref() != Some(want.as_str()) {
                    out.push(v("C18", "sysinfo-os-version", format!("{:?} != {:?}", s.csd, want)));
                }
            }
            if let Some((nproc, family, model, stepping, vendor)) = sc.tags.iter().find_map(|t| t.strip_prefix("cpu:")).and_then(parse_cpu_tag) {
                // processors that are offline (hotplug, SMT switched off) are not listed in /proc/cpuinfo;
                // the others keep their ids. "The processor count of the machine" is either reading of
                // it - the processors present, or the ones online - but nothing else.
                let online = w.cpuinfo.as_ref().map(|c| c.0.split(|b| *b == b'\n').filter(|l| l.starts_with(b"processor")).count() as u64).unwrap_or(nproc);
                if s.nproc as u64 != nproc && s.nproc as u64 != online {
                    out.push(v("C18", "sysinfo-processor-count", format!("{} recorded; {} processors present, {} online", s.nproc, nproc, online)));
                }
                if s.level as u64 != family {
                    out.push(v("C18", "sysinfo-family", format!("{} != {}", s.level, family)));
                }
                if s.revision as u64 != (model << 8 | stepping) {
                    out.push(v("C18", "sysinfo-model-stepping", format!("{:#x} != model {} stepping {}", s.revision, model, stepping)));
                }
                let mut wv = vendor.as_bytes().to_vec();
                wv.resize(12, 0);
                wv.truncate(12);
                if s.vendor != wv {
                    out.push(v("C18", "sysinfo-vendor", format!("{:?} != {:?}", String::from_utf8_lossy(&s.vendor), vendor)));
                }
            }
        }
    }
    // 5. linker debug stream
    let direct = opts.direct_auxv.clone().unwrap_or_else(|| vec![0, 0, 0, 0]);
    let phnum = if direct[0] != 0 { Some(direct[0]) } else { auxv_first(w, 5) };
    let phdr = if direct[1] != 0 { Some(direct[1]) } else { auxv_first(w, 3) };
    if let (Some(phnum), Some(phdr)) = (phnum, phdr) {
        if let Some(m) = dso_model(k, phdr, phnum) {
            match &dec.dso {
                None => out.push(v("C18", "dso-missing", format!("linker list with {} objects is reachable from phdr {:#x} but no stream was written", m.links.len(), phdr))),
                Some(ds) => {
                    let got: Vec<(u64, String, u64)> = ds.links.iter().map(|(a, n, l)| (*a, n.clone().unwrap_or_default(), *l)).collect();
                    let same = got.len() == m.links.len() && got.iter().zip(m.links.iter()).all(|(g, w)| g.0 == w.0 && g.2 == w.2 && w.1.as_ref().map(|n| *n == g.1).unwrap_or(true));
                    if !same {
                        out.push(v("C18", "dso-links-differ", format!("{} objects recorded, {} in the target's list (phdr {:#x}, direct auxv {:?})", got.len(), m.links.len(), phdr, opts.direct_auxv)));
                    }
                    if ds.version != m.version || ds.brk != m.brk || ds.ldbase != m.ldbase {
                        out.push(v("C18", "dso-header-differs", format!("version/brk/ldbase {} {:#x} {:#x} != {} {:#x} {:#x}", ds.version, ds.brk, ds.ldbase, m.version, m.brk, m.ldbase)));
                    }
                    if ds.dynamic != m.dynamic {
                        out.push(v("C18", "dso-dynamic-address", format!("{:#x} != {:#x}", ds.dynamic, m.dynamic)));
                    }
                    if ds.dyn_bytes != m.dyn_bytes {
                        out.push(v("C18", "dso-dynamic-bytes", format!("{} bytes recorded, {} expected", ds.dyn_bytes.len(), m.dyn_bytes.len())));
                    }
                }
            }
        }
    }
    out
}

fn parse_cpu_tag(t: &str) -> Option<(u64, u64, u64, u64, String)> {
    let p: Vec<&str> = t.splitn(5, ',').collect();
    if p.len() != 5 {
        return None;
    }
    Some((p[0].parse().ok()?, p[1].parse().ok()?, p[2].parse().ok()?, p[3].parse().ok()?, p[4].to_string()))
}
