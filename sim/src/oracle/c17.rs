//! C17 — all remote-memory read strategies return the target's bytes.

use super::{v, Violation};
use crate::run::RunResult;
use crate::scenario::*;

const NAMES: [&str; 4] = ["process_vm_readv", "/proc/pid/mem", "PTRACE_PEEKDATA", "auto"];

pub fn check(sc: &Scenario, res: &RunResult) -> Vec<Violation> {
    let mut out = Vec::new();
    let k = &res.kernel;
    let faulted = !sc.faults.is_empty();
    if k.budget_exhausted {
        out.push(v("C17", "read-unbounded", format!("a remote read did not come back within {} simulated calls", k.seq)));
    }
    for o in &res.mem_reads {
        let op = &o.op;
        let sname = NAMES[(op.strategy as usize).min(3)];
        if o.panicked {
            out.push(v("C17", "read-panicked", format!("{} {:#x}+{}: {}", sname, op.src, op.len, o.result.clone().err().unwrap_or_default())));
            continue;
        }
        if o.setup_failed {
            continue;
        }
        if o.died_during {
            continue; // killed in the middle of this very read: any outcome but a panic is fine
        }
        if o.target_dead {
            // nothing of the target exists any more: every byte returned is fabricated
            if let Ok(bytes) = &o.result {
                if !bytes.is_empty() {
                    out.push(v("C17", "bytes-from-a-dead-target", format!("{} {:#x}+{}: the target had been killed, {} bytes were returned", sname, op.src, op.len, bytes.len())));
                }
            }
            continue;
        }
        // readable in the target = mapped with read permission
        let readable = k.accessible_run(op.src, op.len, false);
        // bytes that exist at all (FOLL_FORCE view)
        let exists = k.accessible_run(op.src, op.len, true);
        match &o.result {
            Ok(bytes) => {
                if bytes.len() as u64 > op.len {
                    out.push(v("C17", "read-too-long", format!("{} {:#x}+{} returned {} bytes", sname, op.src, op.len, bytes.len())));
                    continue;
                }
                if bytes.len() as u64 > exists {
                    out.push(v("C17", "fabricated-bytes", format!("{} {:#x}+{}: returned {} bytes, only {} exist in the target", sname, op.src, op.len, bytes.len(), exists)));
                    continue;
                }
                let truth = k.read_mem_vec(op.src, bytes.len());
                if *bytes != truth {
                    let p = bytes.iter().zip(truth.iter()).position(|(a, b)| a != b).unwrap_or(0);
                    out.push(v("C17", "wrong-bytes", format!("{} {:#x}+{} (src mod 8 = {}): byte {} is {:#04x}, target has {:#04x}", sname, op.src, op.len, op.src % 8, p, bytes[p], truth[p])));
                    continue;
                }
                if readable == op.len && (bytes.len() as u64) < op.len && !faulted {
                    out.push(v("C17", "short-read-of-readable-range", format!("{} {:#x}+{}: entirely readable, got {} bytes", sname, op.src, op.len, bytes.len())));
                }
            }
            Err(e) => {
                if readable == op.len && !faulted {
                    let tail = (op.src + op.len) % 8;
                    let id = if op.strategy == 2 { "ptrace-read-of-readable-range-failed" } else { "read-of-readable-range-failed" };
                    out.push(v("C17", id, format!("{} {:#x}+{} (src mod 8 = {}, end mod 8 = {}): entirely readable range, error {}", sname, op.src, op.len, op.src % 8, tail, e)));
                }
            }
        }
    }
    out
}
