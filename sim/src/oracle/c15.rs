//! C15 — thread names are attached to the right threads.

use super::{util, v, Violation};
use crate::decode;
use crate::run::RunResult;
use crate::scenario::*;
use std::collections::BTreeMap;

pub fn check(_sc: &Scenario, res: &RunResult) -> Vec<Violation> {
    let mut out = Vec::new();
    let Some((d, img)) = util::first_ok(res) else { return out };
    let dec = decode::decode(img);
    let Some(threads) = &dec.threads else { return out };
    let k = &d.kernel_after;
    // what the kernel served for each thread's comm during enumeration
    let mut served: BTreeMap<i32, Option<Vec<u8>>> = BTreeMap::new();
    for (path, code) in &k.gt.opens {
        if let Some(tid) = comm_tid(path) {
            if *code != 0 {
                served.insert(tid, None);
            }
        }
    }
    for (gi, (path, bytes)) in k.gt.file_reads.iter().enumerate() {
        if let Some(tid) = comm_tid(path) {
            if k.gt.read_failed.contains(&gi) {
                served.insert(tid, None);
            } else {
                served.insert(tid, Some(bytes.clone()));
            }
        }
    }
    // a read error after a successful open: the bytes served are not the whole name
    let mut expected: BTreeMap<u32, String> = BTreeMap::new();
    for t in threads {
        let tid = t.tid as i32;
        let Some(Some(bytes)) = served.get(&tid) else { continue };
        // the kernel appends exactly one newline to the name
        let Some(name) = bytes.strip_suffix(b"\n") else { continue };
        if let Ok(s) = std::str::from_utf8(name) {
            expected.insert(t.tid, s.to_string());
        }
    }
    let Some(names) = &dec.names else {
        out.push(v("C15", "names-stream-missing", "no thread-name stream in a successful dump".into()));
        return out;
    };
    let mut got: BTreeMap<u32, String> = BTreeMap::new();
    for (tid, _rva, name) in names {
        let Some(name) = name else {
            out.push(v("C15", "name-undecodable", format!("entry for tid {} has no decodable string", tid)));
            continue;
        };
        if got.insert(*tid, name.clone()).is_some() {
            out.push(v("C15", "name-duplicate", format!("two entries for tid {}", tid)));
        }
    }
    for (tid, want) in &expected {
        match got.get(tid) {
            None => out.push(v("C15", "name-missing", format!("listed thread {} has readable name {:?} but no entry ({} entries, {} expected)", tid, want, got.len(), expected.len()))),
            Some(g) if g != want => {
                let id = if g.trim_end() == want.trim_end() { "name-whitespace-altered" } else { "name-wrong" };
                out.push(v("C15", id, format!("thread {}: kernel reports {:?}, stream holds {:?}", tid, want, g)))
            }
            _ => {}
        }
    }
    for (tid, g) in &got {
        if !expected.contains_key(tid) {
            out.push(v("C15", "name-unexpected", format!("entry ({}, {:?}) for a thread that is not listed or whose name could not be read", tid, g)));
        }
    }
    out
}

fn comm_tid(path: &[u8]) -> Option<i32> {
    let p = std::str::from_utf8(path).ok()?;
    let rest = p.strip_suffix("/comm")?;
    let (head, tid) = rest.rsplit_once('/')?;
    if !head.ends_with("/task") {
        return None;
    }
    tid.parse().ok()
}
