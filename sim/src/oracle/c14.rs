//! C14 — ELF identification is total and agrees with an independent reader (I/O-facing part).

use super::{v, Violation};
use crate::elfref;
use crate::run::RunResult;
use crate::scenario::*;

pub fn check(sc: &Scenario, res: &RunResult) -> Vec<Violation> {
    let mut out = Vec::new();
    let Workload::ElfId(p) = &sc.workload else { return out };
    let Some(o) = &res.elf else { return out };
    for pm in &o.panics {
        out.push(v("C14", "identification-panicked", pm.clone()));
    }
    if res.kernel.budget_exhausted {
        out.push(v("C14", "identification-unbounded", "call / time budget exhausted".into()));
    }
    if !p.well_formed || !sc.faults.is_empty() {
        return out;
    }
    // expectations from the independent reader applied to the file
    let Some(f) = sc.world.files.iter().find(|f| f.path == p.path) else { return out };
    let Some(elf) = elfref::parse(&f.content.0) else { return out };
    let want_id = elf.build_id();
    let want_so = elf.soname();
    let results: Vec<(&str, &Option<Result<Vec<u8>, String>>)> = vec![("memory", &o.mem_build_id), ("file", &o.file_build_id)];
    for (src, r) in results {
        let Some(r) = r else { continue };
        // from memory the section table may not be loaded: then only the note in a segment is reachable
        let reachable = src == "file" || !sc.tags.iter().any(|t| t == "sections-unmapped");
        match (r, &want_id) {
            (Ok(got), Some(w)) => {
                if got != w && reachable {
                    out.push(v("C14", "build-id-differs", format!("from {}: {:02x?} != reference reader {:02x?}", src, got, w)));
                }
            }
            (Err(e), Some(w)) => {
                let seg_note = sc.tags.iter().any(|t| t == "note-in-segment");
                if reachable || seg_note {
                    out.push(v("C14", "build-id-not-found", format!("from {}: error {} but the reference reader finds {:02x?}", src, e.chars().take(160).collect::<String>(), w)));
                }
            }
            (Ok(got), None) => out.push(v("C14", "build-id-invented", format!("from {}: {:02x?} but the reference reader finds none", src, got))),
            (Err(_), None) => {}
        }
    }
    let sresults: Vec<(&str, &Option<Result<String, String>>)> = vec![("memory", &o.mem_soname), ("file", &o.file_soname)];
    for (src, r) in sresults {
        let Some(r) = r else { continue };
        match (r, &want_so) {
            (Ok(got), Some(w)) if got != w => out.push(v("C14", "soname-differs", format!("from {}: {:?} != {:?}", src, got, w))),
            (Err(e), Some(w)) => out.push(v("C14", "soname-not-found", format!("from {}: error {} but DT_SONAME is {:?}", src, e.chars().take(160).collect::<String>(), w))),
            (Ok(got), None) => out.push(v("C14", "soname-invented", format!("from {}: {:?} but the image has no DT_SONAME", src, got))),
            _ => {}
        }
    }
    // memory and file agree
    if let (Some(Ok(a)), Some(Ok(b))) = (&o.mem_build_id, &o.file_build_id) {
        if a != b && !sc.tags.iter().any(|t| t == "sections-unmapped") {
            out.push(v("C14", "memory-file-disagree-build-id", format!("{:02x?} vs {:02x?}", a, b)));
        }
    }
    if let (Some(Ok(a)), Some(Ok(b))) = (&o.mem_soname, &o.file_soname) {
        if a != b {
            out.push(v("C14", "memory-file-disagree-soname", format!("{:?} vs {:?}", a, b)));
        }
    }
    out
}
