//! C06 — captured stacks contain the live stack.

use super::{util, v, Violation};
use crate::decode;
use crate::run::RunResult;
use crate::scenario::*;

const GUARD: u64 = 1024 * 1024;

pub fn check(sc: &Scenario, res: &RunResult) -> Vec<Violation> {
    let mut out = Vec::new();
    let Some(opts) = util::dump_opts(sc) else { return out };
    if opts.skip_unref {
        return out; // that option legitimately drops stacks
    }
    if let Some(d0) = res.dumps.first() {
        if let crate::run::DumpRes::Err(e) = &d0.result {
            // a stack that cannot be read (stack pointer in guard pages, unmapped) is left out; it does not
            // cost the whole request
            if sc.events.is_empty() && sc.faults.iter().all(|f| matches!(f.trig.kind, CallKind::Vmreadv) || (f.trig.kind == CallKind::Open && f.trig.path.as_deref() == Some("/mem"))) && !d0.kernel_after.dead && e.contains("SectionThreadListError(CopyFromProcessError") {
                out.push(v("C06", "unreadable-stack-fails-request", format!("the request failed on a thread stack that cannot be read: {}", e.chars().take(200).collect::<String>())));
            }
        }
    }
    let Some((d, img)) = util::first_ok(res) else { return out };
    let dec = decode::decode(img);
    let Some(threads) = &dec.threads else { return out };
    let k = &d.kernel_after;
    let w = &k.world;
    for (idx, t) in threads.iter().enumerate() {
        let tid = t.tid as i32;
        let is_crash = opts.crash.is_some() && tid == opts.blamed;
        let sp = if is_crash {
            opts.crash.as_ref().unwrap().gregs[crate::profiles::REG_RSP] as u64
        } else {
            match &t.ctx {
                Some(c) => c.rsp,
                None => continue,
            }
        };
        let start = t.stack_start;
        let size = t.stack_size as u64;
        let reg = util::region_of(w, sp);
        let readable = reg.map(|r| r.readable()).unwrap_or(false) && !util::no_remote(w, sp);
        if readable {
            let (_lo, hi) = util::mapping_hull(w, sp).unwrap();
            // pages above the stack pointer that no strategy can read (the installed guard of the next
            // stack in the same mapping) end what can be captured
            let hi = w.no_remote.iter().map(|(s0, _)| *s0).filter(|s0| *s0 > sp && *s0 < hi).min().unwrap_or(hi);
            if size == 0 {
                out.push(v("C06", "stack-empty", format!("thread {} (position {}): stack pointer {:#x} is in readable memory but no stack was captured", tid, idx, sp)));
                continue;
            }
            if !(start <= sp && sp < start + size) {
                let id = if size <= 2048 && opts.size_limit.is_some() { "limited-stack-misses-sp" } else { "stack-misses-sp" };
                out.push(v("C06", id, format!("thread {} (position {}): region {:#x}+{} does not contain the stack pointer {:#x}", tid, idx, start, size, sp)));
                continue;
            }
            let full = start == (sp & !0xfff) && start + size == hi;
            let may_shorten = opts.size_limit.is_some() && idx >= 20 && !is_crash;
            if !full {
                if !may_shorten {
                    let id = if opts.size_limit.is_some() { "stack-shortened-but-not-eligible" } else { "stack-not-full" };
                    out.push(v("C06", id, format!("thread {} (position {}, crash thread {}): region {:#x}+{}, expected page {:#x} up to mapping end {:#x}", tid, idx, is_crash, start, size, sp & !0xfff, hi)));
                } else if size > 2048 {
                    out.push(v("C06", "shortened-stack-too-long", format!("thread {} (position {}): {} bytes", tid, idx, size)));
                }
            }
            if !opts.sanitize {
                if let Some(bytes) = img.get(t.stack_rva as usize..(t.stack_rva as u64 + size) as usize) {
                    let from = (sp - start) as usize;
                    let (mis, _sk) = util::compare_mem(k, sp, &bytes[from..]);
                    if let Some(o) = mis {
                        out.push(v("C06", "stack-bytes-differ", format!("thread {}: byte at {:#x} differs from the target's memory", tid, sp + o as u64)));
                    }
                }
            }
        } else {
            // guard page or unmapped: first plausible mapping above within the guard distance, or empty
            if size == 0 {
                continue;
            }
            let page = sp & !0xfff;
            // pages at the start of a candidate that no strategy can read (an installed guard) are skipped
            let past_guard = |mut a: u64| {
                while let Some((s0, l0)) = w.no_remote.iter().find(|(s0, l0)| a >= *s0 && a - *s0 < *l0) {
                    a = s0 + l0;
                }
                a
            };
            let mut cand = w
                .regions
                .iter()
                .filter(|r| r.start > page && (r.perms.starts_with('r') || r.perms.as_bytes()[1] == b'w'))
                .map(|r| past_guard(r.start))
                .min();
            // the stack pointer sits in guard pages that were installed inside the stack's own mapping
            if util::no_remote(w, sp) {
                if let Some(r) = reg {
                    let c = past_guard(page);
                    if c < r.end() {
                        cand = Some(c);
                    }
                }
            }
            match cand {
                Some(c) if c - page <= GUARD + 0x1000 => {
                    if start != c {
                        out.push(v("C06", "guard-stack-wrong-start", format!("thread {}: stack pointer {:#x} unmapped; region starts at {:#x}, first plausible mapping above is {:#x}", tid, sp, start, c)));
                    } else if let Some((_, hi)) = util::mapping_hull(w, c) {
                        // the region is (part of) that mapping: it does not run on into whatever is mapped behind it
                        if start + size > hi {
                            out.push(v("C06", "guard-stack-beyond-mapping", format!("thread {}: region {:#x}+{} runs past the end {:#x} of the mapping it begins in", tid, start, size, hi)));
                        }
                    }
                }
                _ => {
                    out.push(v("C06", "guard-stack-beyond-distance", format!("thread {}: stack pointer {:#x} has no plausible mapping within the guard distance but {} bytes at {:#x} were captured", tid, sp, size, start)));
                }
            }
        }
    }
    out
}
