//! Per-property scenario generators (swarm style: each run first draws which features are on).

use crate::gen::*;
use crate::rng::{derive_seed, mix64, Rng};
use crate::scenario::*;

pub const REG_RSP: usize = 15;
pub const REG_RIP: usize = 16;
pub const REG_EFL: usize = 17;
pub const REG_CSGSFS: usize = 18;

pub fn crash_spec(r: &mut Rng, tid: i32, rsp: u64, rip: u64) -> CrashSpec {
    let mut gregs: Vec<i64> = (0..23).map(|i| (mix64(tid as u64 ^ 0xc4a5, 0x5000 + i) | 1) as i64).collect();
    gregs[REG_RSP] = rsp as i64;
    gregs[REG_RIP] = rip as i64;
    gregs[REG_EFL] = (mix64(tid as u64, 0x5100) & 0xffff_ffff) as i64;
    let fp = FpSpec {
        cwd: r.next() as u16,
        swd: r.next() as u16,
        ftw: (r.next() & 0xff) as u16,
        fop: r.next() as u16,
        rip: r.next() & 0xffff_ffff,
        rdp: r.next() & 0xffff_ffff,
        mxcsr: r.next() as u32,
        mxcr_mask: r.next() as u32,
        st: (0..32).map(|_| r.next() as u32).collect(),
        xmm: (0..64).map(|_| r.next() as u32).collect(),
    };
    CrashSpec {
        gregs,
        fp,
        signo: *r.pick(&[11u32, 6, 7, 4, 8]),
        // kernel fault codes are small positive numbers; signals a process raised itself carry
        // negative ones (SI_TKILL -6, SI_QUEUE -1, SI_TIMER -2), SI_USER is 0, SI_KERNEL 0x80
        code: if r.chance(1, 4) { *r.pick(&[-6i32, -1, -2, 0, 0x80, i32::MIN, i32::MAX]) } else { r.range(1, 8) as i32 },
        addr: r.next(),
        tid,
    }
}

pub fn thread_count(r: &mut Rng) -> usize {
    match r.below(48) {
        0..=11 => 1,
        12..=31 => r.range(2, 5) as usize,
        32..=43 => r.range(6, 24) as usize,
        44..=46 => r.range(25, 64) as usize,
        // beyond the bound the statements name: still has to work
        _ => r.range(65, 130) as usize,
    }
}

fn invalid_utf8_comm(r: &mut Rng) -> Vec<u8> {
    let n = r.range(1, 15) as usize;
    let mut v = r.bytes(n);
    for b in v.iter_mut() {
        if *b == b'\n' || *b == 0 {
            *b = b'x';
        }
    }
    v[0] = 0xff;
    v
}

/// Make some threads' names unreadable. Returns number of affected threads.
pub fn spoil_names(r: &mut Rng, w: &mut World, num: u64, den: u64) -> usize {
    let mut n = 0;
    for t in w.threads.iter_mut() {
        if r.chance(num, den) {
            n += 1;
            match r.below(4) {
                0 => t.comm_fault = Some("enoent".into()),
                1 => t.comm_fault = Some("eacces".into()),
                2 => t.comm_fault = Some("eio".into()),
                _ => t.comm = B(invalid_utf8_comm(r)),
            }
        }
    }
    n
}

pub fn stack_of(b: &Built, tid: i32) -> (u64, u64) {
    let s = b.stacks.iter().find(|s| s.0 == tid).unwrap();
    (s.1, s.2)
}

pub fn size_limit_choice(r: &mut Rng, nthreads: usize) -> Option<u64> {
    // estimate: position-after-thread-list + nthreads*8K + 64K
    let est = 32 + 18 * 12 + 4 + nthreads as u64 * 48 + nthreads as u64 * 8192 + 65536;
    match r.below(6) {
        0 => None,
        1 => Some(1),
        2 => Some(est - 1),
        3 => Some(est),
        4 => Some(est + 1),
        _ => Some(1 << 40),
    }
}

/// Rich dump scenario used by C01 (and as a base by others).
pub fn rich_dump(r: &mut Rng, prop: &str, seed: u64, profile: &str, benign_faults: bool) -> (Scenario, Vec<String>) {
    let mut tags = Vec::new();
    let nthreads = thread_count(r);
    tags.push(format!("thr{}", match nthreads { 1 => "1", 2..=5 => "2-5", 6..=24 => "6-24", _ => "25-64" }));
    let cfg = WorldCfg {
        nthreads,
        nlibs: r.below(6) as usize,
        stack_pages_min: 1,
        stack_pages_max: if nthreads > 24 { 4 } else { 16 },
        nfds: if r.chance(1, 6) { 0 } else { r.range(1, 40) as usize },
        lib_variety: true,
        link_map: r.chance(7, 8),
        exe_name: "/usr/bin/app",
        alt_chain: false,
        names_at_end: false,
        lib_gaps: r.chance(1, 3),
    };
    let mut b = build_world(r, &cfg);
    if r.chance(1, 12) && crate::gen::spoil_first_lib_name(&mut b, &cfg) {
        tags.push("linkmap-name-not-utf8".into());
    }
    if r.chance(1, 14) && crate::gen::spoil_last_lib_name_pointer(&mut b, &cfg) {
        tags.push("linkmap-name-unreadable".into());
    }
    let mut opts = Opts {
        blamed: tid_of(r.below(nthreads as u64) as usize),
        ..Default::default()
    };
    // names
    if r.coin() {
        let n = spoil_names(r, &mut b.world, 1, 3);
        if n > 0 {
            tags.push("unnamed".into());
        }
    }
    for t in b.world.threads.iter_mut() {
        if r.chance(1, 8) {
            let len = r.below(16) as usize;
            let s: String = (0..len).map(|_| *r.pick(&['a', 'Z', '0', ' ', '-', 'é', '漢', '(', ')', '\u{1F600}'])).collect();
            let mut bytes = s.into_bytes();
            bytes.truncate(15);
            // keep valid UTF-8 after truncation
            while std::str::from_utf8(&bytes).is_err() {
                bytes.pop();
            }
            t.comm = B(bytes);
        }
    }
    // options
    if r.coin() {
        let ti = r.below(nthreads as u64) as usize;
        let tid = tid_of(ti);
        opts.blamed = tid;
        let (ss, sl) = stack_of(&b, tid);
        let rsp = match r.below(6) {
            0 => 0x1000, // unmapped
            1 => ss - 0x800, // guard page (non-main) or unmapped
            _ => ss + sl - 0x80 - r.below(sl / 2 / 8) * 8,
        };
        let exe = &b.modules[0];
        let gapped: Option<u64> = b.modules.iter().find(|m| m.image.data_vaddr > m.image.data_off).map(|m| m.base + m.image.text_off + m.image.text_len);
        let rip = match r.below(8) {
            0 => 0x10,
            1 => exe.base + exe.image.text_off, // first byte of the text region
            6 | 7 if gapped.is_some() => gapped.unwrap() - 1 - r.below(100), // just before a library's inaccessible reserved gap
            2 => exe.base + exe.image.text_off + exe.image.text_len - 1,
            _ => exe.base + exe.image.text_off + 0x200 + r.below(0x400),
        };
        opts.crash = Some(crash_spec(r, tid, rsp, rip));
        tags.push("crash".into());
    }
    if r.chance(1, 3) {
        opts.size_limit = size_limit_choice(r, nthreads);
        if opts.size_limit.is_some() {
            tags.push("limit".into());
        }
    }
    if r.chance(1, 3) {
        opts.sanitize = true;
        tags.push("sanitize".into());
    }
    if r.chance(1, 3) {
        opts.skip_unref = true;
        tags.push("skip".into());
        if r.chance(3, 4) {
            let m = r.pick(&b.modules);
            opts.principal = Some(m.base + r.below(m.image.mapped_len));
        } else if r.coin() {
            opts.principal = Some(0x1234_5000);
        }
    }
    if r.chance(1, 2) {
        let n = r.range(1, 4);
        for _ in 0..n {
            let len = *r.pick(&[1u64, 7, 8, 9, 100, 4095, 4096, 4097, 65536]);
            let pages = (len + 0x1fff) / 0x1000;
            let start = b.add_anon(pages * 0x1000, "rw-p", r.next(), 1);
            let off = r.below(pages * 0x1000 - len + 1);
            if r.chance(1, 5) && len > 1 {
                // runs past the end of its mapping into unmapped memory: the copy is partial
                opts.app_memory.push((start + pages * 0x1000 - (len / 2).max(1), len));
                if !tags.iter().any(|t| t == "appmem-crosses-end") {
                    tags.push("appmem-crosses-end".into());
                }
            } else {
                opts.app_memory.push((start + off, len));
            }
        }
        tags.push("appmem".into());
    }
    if r.chance(1, 4) {
        let n = r.range(1, 3);
        for i in 0..n {
            let (start, size) = if r.coin() && b.modules.len() > 1 {
                let m = &b.modules[1 + r.below(b.modules.len() as u64 - 1) as usize];
                (m.base, m.image.mapped_len)
            } else {
                (0x6000_0000_0000 + i * 0x100000, 0x3000)
            };
            let idlen = r.pick_copy(&[16usize, 20]);
            opts.user_mappings.push(UserMapSpec {
                sysinfo_zeroed: r.coin(),
                start,
                size,
                offset: 0,
                perms: "r-xp".into(),
                name: Some(B::s(&format!("/user/mapped{}.so", i))),
                identifier: B(r.bytes(idlen)),
            });
        }
        tags.push("usermap".into());
    }
    if r.chance(1, 4) {
        let exe = &b.modules[0];
        let mut d = vec![exe.image.phnum, exe.base + exe.image.phoff, b.vdso_base, exe.base + exe.image.entry_off];
        for x in d.iter_mut() {
            if r.chance(1, 4) {
                *x = 0;
            }
        }
        if b.modules.len() > 1 && r.chance(1, 3) {
            // the caller's values legitimately differ from the kernel's (e.g. the program was started
            // through an explicit loader invocation): entry point inside a library
            let m = &b.modules[1 + r.below(b.modules.len() as u64 - 1) as usize];
            d[3] = m.base + m.image.entry_off;
            tags.push("directauxv-differs".into());
        }
        opts.direct_auxv = Some(d);
        tags.push("directauxv".into());
    }
    if r.chance(1, 8) {
        let start = 0x6800_0000_0000u64;
        let len = *r.pick(&[1u64 << 32, (1u64 << 32) + 0x1000, 1u64 << 40]);
        b.world.regions.push(RegionSpec { start, len, perms: (*r.pick(&["---p", "rw-p"])).into(), offset: 0, inode: 0, name: B(Vec::new()), deleted: false, content: Content::Zero });
        b.world.regions.sort_by_key(|x| x.start);
        tags.push("huge-mapping".into());
    }
    let mut events = Vec::new();
    let mut faults = Vec::new();
    if benign_faults {
        reader_knob(r, &mut faults, &mut tags);
        if r.chance(1, 6) {
            // the writer process is interrupted by a signal of its own: std retries these
            let kind = *r.pick(&[CallKind::Read, CallKind::Open, CallKind::Waitpid, CallKind::Nanosleep]);
            faults.push(FaultRule { trig: Trigger { kind, nth: r.below(20) as u32, path: None }, effect: Effect::Errno(4), times: r.range(1, 3) as u32, exotic: false });
            tags.push("eintr".into());
        }
        if r.chance(1, 3) {
            opts.failspots = r.below(32) as u8;
            if opts.failspots != 0 {
                tags.push("failspots".into());
            }
        }
        if r.chance(1, 6) {
            b.world.cpuinfo = None;
        }
        if r.chance(1, 6) {
            b.world.lsb_release = None;
            if r.coin() {
                b.world.os_release = None;
            }
        }
        if r.chance(1, 8) {
            b.world.auxv_missing = true;
        }
        if r.chance(1, 8) {
            b.world.fd_dir_fails = true;
        }
        if r.chance(1, 8) {
            b.world.uname_fails = true;
        }
        if r.chance(1, 4) && nthreads > 1 {
            // threads vanish between enumeration and attach
            let k = r.range(1, (nthreads as u64 - 1).min(3));
            for _ in 0..k {
                let ti = r.range(1, nthreads as u64 - 1) as usize;
                let tid = tid_of(ti);
                if tid == opts.blamed {
                    continue;
                }
                events.push(Event {
                    trig: Trigger {
                        kind: CallKind::PtraceAttach,
                        nth: 0,
                        path: None,
                    },
                    what: EventKind::ThreadExit { tid },
                });
            }
            tags.push("vanish".into());
        }
    }
    let mut sched = Sched::default();
    if r.chance(1, 5) {
        sched.read_chunk = *r.pick(&[1u64, 3, 7, 16, 37, 100]);
        tags.push("shortreads".into());
    }
    let sc = Scenario {
        prop: prop.to_string(),
        seed,
        profile: profile.to_string(),
        world: b.world,
        workload: Workload::Dump(DumpPlan {
            opts,
            dests: vec![default_dest()],
            between: Vec::new(),
        }),
        events,
        faults,
        sched,
        tags: tags.clone(),
    };
    (sc, tags)
}

/// The target is killed at one of the writer's reads of linker data (dynamic section of the
/// program, r_debug, a link-map entry): streams written afterwards fail softly.
pub fn kill_at_linker_read(r: &mut Rng, sc: &mut Scenario) {
    let mut addrs: Vec<u64> = vec![HEAP_BASE, HEAP_BASE + 0x40];
    // dynamic section of the program: the PT_DYNAMIC address is what the walk and the re-read use
    if let Some(g) = sc.world.regions.iter().find(|g| g.start == EXE_BASE) {
        if let Content::Bytes(bytes) = &g.content {
            let b = &bytes.0;
            if b.len() > 64 {
                let phoff = u64::from_le_bytes(b[32..40].try_into().unwrap()) as usize;
                let phnum = u16::from_le_bytes(b[56..58].try_into().unwrap()) as usize;
                for i in 0..phnum {
                    let o = phoff + i * 56;
                    if o + 56 <= b.len() && u32::from_le_bytes(b[o..o + 4].try_into().unwrap()) == 2 {
                        addrs.push(EXE_BASE + u64::from_le_bytes(b[o + 16..o + 24].try_into().unwrap()));
                    }
                }
            }
        }
    }
    let a = *r.pick(&addrs);
    sc.events.push(Event { trig: Trigger { kind: CallKind::Vmreadv, nth: r.below(4) as u32, path: Some(format!("@{:x}+", a)) }, what: EventKind::KillProcess });
    sc.tags.push("killed-at-linker-read".into());
}

pub fn dest_plan(r: &mut Rng, with_faults: bool) -> DestPlan {
    let start = *r.pick(&[0u64, 0, 1, 7, 4095, 4096, 65536]);
    let pre_len = match r.below(4) {
        0 => 0,
        1 => start,
        2 => start + r.below(5000),
        _ => start + 20_000 + r.below(200_000),
    };
    let start = start.min(pre_len.max(start));
    // a destination handed over at an offset near or beyond 4 GiB (recorded sparsely)
    let origin = if r.chance(1, 8) { *r.pick(&[0xFFFF_F000u64, 0x1_0000_0000, 0x1_2345_6000, 0x7_0000_0000]) } else { 0 };
    let start = start + origin;
    let mut fx = Vec::new();
    if with_faults {
        let n = if r.chance(1, 4) { 2 } else { 1 };
        for _ in 0..n {
            let op = r.below(180) as u32;
            let kind = match r.below(8) {
                0 | 1 => DestFx::Short(*r.pick(&[1u64, 2, 11, 12, 13, 31, 100, 4096])),
                2 => DestFx::Interrupted,
                3 | 4 => DestFx::Error(28),
                5 => DestFx::Error(5),
                6 => DestFx::Panic,
                _ => DestFx::Zero,
            };
            if !fx.iter().any(|(o, _)| *o == op) {
                fx.push((op, kind));
            }
        }
        fx.sort_by_key(|(o, _)| *o);
    }
    DestPlan { start, pre_len, origin, fx, short_entry: 0 }
}

fn dir_plan(r: &mut Rng) -> DirPlan {
    let slots = r.range(1, 8) as u32;
    let n = r.range(1, 40);
    let mut ops = Vec::new();
    let mut nalloc = 0u32;
    let mut narr: Vec<u32> = Vec::new();
    let mut dirents = 0u32;
    for _ in 0..n {
        let k = r.below(10);
        match k {
            0 => {
                ops.push(DirOp::AllocU32(r.next() as u32));
                nalloc += 1;
            }
            1 | 2 => {
                let len = *r.pick(&[0usize, 1, 3, 12, 100, 5000]);
                ops.push(DirOp::AllocBytes(B(r.bytes(len))));
                nalloc += 1;
            }
            3 => {
                let c = r.below(6) as u32;
                ops.push(DirOp::AllocArrayU64(c));
                narr.push(c);
                nalloc += 1;
            }
            4 => {
                if let Some((ai, c)) = narr.iter().enumerate().filter(|(_, c)| **c > 0).last().map(|(i, c)| (i, *c)) {
                    ops.push(DirOp::SetU64 { array: ai as u32, idx: r.below(c as u64) as u32, val: r.next() });
                }
            }
            5 => {
                let len = r.below(12) as usize;
                let s: String = (0..len).map(|_| *r.pick(&['a', 'b', 'é', '漢', '😀', ' ', '/'])).collect();
                ops.push(DirOp::WriteString(s));
                nalloc += 1;
            }
            6 | 7 => ops.push(DirOp::Flush),
            _ => {
                if dirents < slots && nalloc > 0 && r.chance(1, 4) {
                    ops.push(DirOp::EntryOnly { stream_type: 1 + r.below(30) as u32, from_alloc: r.below(nalloc as u64) as u32 });
                    dirents += 1;
                } else if dirents < slots && nalloc > 0 {
                    ops.push(DirOp::Dirent { stream_type: 1 + r.below(30) as u32, from_alloc: r.below(nalloc as u64) as u32 });
                    dirents += 1;
                }
            }
        }
    }
    let with_faults = r.coin();
    let mut dest = dest_plan(r, with_faults);
    for f in dest.fx.iter_mut() {
        f.0 %= 24;
        if f.1 == DestFx::Panic {
            f.1 = DestFx::Error(28);
        }
    }
    DirPlan { slots, dest, ops }
}

fn small_rich(r: &mut Rng, prop: &str, seed: u64, profile: &str) -> Scenario {
    // like rich_dump but thread counts stay small so that multi-run properties remain cheap
    let (mut sc, _) = rich_dump(r, prop, seed, profile, false);
    if sc.world.threads.len() > 8 && !r.chance(1, 8) {
        let keep = r.range(1, 8) as usize;
        let (blamed, crash_tid) = match &sc.workload {
            Workload::Dump(p) => (p.opts.blamed, p.opts.crash.as_ref().map(|c| c.tid)),
            _ => (0, None),
        };
        let mut i = 0usize;
        sc.world.threads.retain(|t| {
            i += 1;
            i <= keep || t.tid == blamed || Some(t.tid) == crash_tid
        });
        sc.tags[0] = "thr-small".into();
    }
    sc
}

/// swarm knob: which remote-read strategy the writer ends up with
/// (process_vm_readv unavailable -> /proc/pid/mem; that unavailable too -> PTRACE_PEEKDATA)
pub fn reader_knob(r: &mut Rng, faults: &mut Vec<FaultRule>, tags: &mut Vec<String>) {
    match r.below(8) {
        0 => {
            faults.push(FaultRule { trig: Trigger { kind: CallKind::Vmreadv, nth: 0, path: None }, effect: Effect::Errno(38), times: 1_000_000, exotic: false });
            tags.push("reader:proc-mem".into());
        }
        1 => {
            faults.push(FaultRule { trig: Trigger { kind: CallKind::Vmreadv, nth: 0, path: None }, effect: Effect::Errno(1), times: 1_000_000, exotic: false });
            faults.push(FaultRule { trig: Trigger { kind: CallKind::Open, nth: 0, path: Some("/mem".into()) }, effect: Effect::Errno(13), times: 1_000_000, exotic: false });
            tags.push("reader:peekdata".into());
        }
        _ => {}
    }
}

pub fn reader_knob_forced(_r: &mut Rng, faults: &mut Vec<FaultRule>, tags: &mut Vec<String>, peek: bool) {
    if faults.iter().any(|f| f.trig.kind == CallKind::Vmreadv && f.times > 1000) {
        return;
    }
    faults.push(FaultRule { trig: Trigger { kind: CallKind::Vmreadv, nth: 0, path: None }, effect: Effect::Errno(38), times: 1_000_000, exotic: false });
    if peek {
        faults.push(FaultRule { trig: Trigger { kind: CallKind::Open, nth: 0, path: Some("/mem".into()) }, effect: Effect::Errno(13), times: 1_000_000, exotic: false });
        tags.push("reader:peekdata".into());
    } else {
        tags.push("reader:proc-mem".into());
    }
}

fn plain_cfg(nthreads: usize, nlibs: usize) -> WorldCfg {
    WorldCfg {
        nthreads,
        nlibs,
        stack_pages_min: 2,
        stack_pages_max: 6,
        nfds: 2,
        lib_variety: false,
        link_map: true,
        exe_name: "/usr/bin/app",
        alt_chain: false,
        names_at_end: false,
        lib_gaps: false,
    }
}

fn random_name(r: &mut Rng) -> Vec<u8> {
    let len = r.below(16) as usize;
    let s: String = (0..len).map(|_| *r.pick(&['a', 'b', 'Z', '0', ' ', '\t', '-', 'é', 'ß', '漢', '😀', '(', ')', ':', '\n', '\\'])).collect();
    let mut bytes = s.into_bytes();
    bytes.truncate(15);
    while std::str::from_utf8(&bytes).is_err() {
        bytes.pop();
    }
    bytes
}

fn gen_c15(r: &mut Rng, seed: u64, idx: u64) -> Scenario {
    // all 2^n unreadable-name patterns for n <= 6 first (126 patterns), random afterwards
    let mut n = 0usize;
    let mut pattern: Option<u64> = None;
    let mut acc = 0u64;
    for k in 1..=6u64 {
        if idx >= acc && idx < acc + (1 << k) {
            n = k as usize;
            pattern = Some(idx - acc);
        }
        acc += 1 << k;
    }
    if pattern.is_none() {
        n = r.range(1, 32) as usize;
    }
    let mut b = build_world(r, &plain_cfg(n, 1));
    let mut tags = vec![format!("n{}", if n <= 6 { n.to_string() } else { "7-32".into() })];
    let mut unread = 0;
    for (i, t) in b.world.threads.iter_mut().enumerate() {
        t.comm = B(random_name(r));
        let bad = match pattern {
            Some(p) => p & (1 << i) != 0,
            None => r.chance(1, 3),
        };
        if bad {
            unread += 1;
            match r.below(4) {
                0 => t.comm_fault = Some("enoent".into()),
                1 => t.comm_fault = Some("eacces".into()),
                2 => t.comm_fault = Some("eio".into()),
                _ => t.comm = B(invalid_utf8_comm(r)),
            }
        }
    }
    tags.push(format!("unreadable{}", if unread == 0 { "0".to_string() } else if unread == n { "all".to_string() } else { format!("some{}", (unread * 4 / n.max(1)).min(3)) }));
    if b.world.threads.first().map(|t| t.comm_fault.is_some()).unwrap_or(false) {
        tags.push("first-unreadable".into());
    }
    if b.world.threads.iter().any(|t| t.comm.0.is_empty()) {
        tags.push("empty-name".into());
    }
    if b.world.threads.iter().any(|t| t.comm.0.last().map(|c| *c == b' ' || *c == b'\t').unwrap_or(false)) {
        tags.push("trailing-ws".into());
    }
    if b.world.threads.iter().any(|t| t.comm.0.iter().any(|c| *c >= 0x80)) {
        tags.push("non-ascii".into());
    }
    if let Some(p) = pattern {
        tags.push(format!("pattern{}", p));
    }
    let mut opts = Opts { blamed: PID, ..Default::default() };
    if pattern.is_none() && r.chance(1, 10) {
        opts.failspots = 1 << 2;
        tags.push("failspot-threadname".into());
    }
    let mut sc = simple_dump_scenario("C15", seed, if pattern.is_some() { "c15-all-patterns" } else { "c15-random" }, b, opts);
    if r.chance(1, 4) {
        sc.sched.read_chunk = *r.pick(&[1u64, 2, 5]);
        tags.push("shortreads".into());
    }
    sc.tags = tags;
    sc
}

fn gen_c05(r: &mut Rng, seed: u64) -> Scenario {
    let n = thread_count(r).min(30);
    let mut b = build_world(r, &plain_cfg(n, 1));
    let mut tags = Vec::new();
    let which = r.below(8);
    let mut events = Vec::new();
    let blamed = match which {
        0 | 1 => PID,
        2 | 3 | 4 => tid_of(r.below(n as u64) as usize),
        5 => {
            // exits between enumeration and attach
            let t = tid_of(r.below(n as u64) as usize);
            if t != PID {
                events.push(Event { trig: Trigger { kind: CallKind::PtraceAttach, nth: 0, path: None }, what: EventKind::ThreadExit { tid: t } });
                tags.push("blamed-exits".into());
            }
            t
        }
        6 => {
            // present in /proc but cannot be attached to: another tracer holds it
            let ti = r.below(n as u64) as usize;
            b.world.threads[ti].foreign_tracer = true;
            tags.push("blamed-foreign-traced".into());
            tid_of(ti)
        }
        _ => {
            if r.coin() {
                tags.push("blamed-never-existed".into());
                PID + 5000
            } else {
                let ti = r.below(n as u64) as usize;
                b.world.threads[ti].regs[R_RSP] = 0;
                tags.push("blamed-sandbox-thread".into());
                tid_of(ti)
            }
        }
    };
    let mut opts = Opts { blamed, ..Default::default() };
    if r.chance(2, 3) {
        let (ss, sl) = b.stacks.iter().find(|s| s.0 == blamed).map(|s| (s.1, s.2)).unwrap_or((b.stacks[0].1, b.stacks[0].2));
        let rsp = ss + sl - 0x40 - r.below(sl / 2 / 8) * 8;
        let exe = &b.modules[0];
        let rip = match r.below(6) {
            0 => {
                tags.push("ip-unmapped".into());
                *r.pick(&[0x10u64, 0x9000_dead_beef, 0x7fff_ffff_f000])
            }
            _ => exe.base + exe.image.text_off + 0x100 + r.below(0x500),
        };
        let mut cs = crash_spec(r, blamed, rsp, rip);
        // segment selectors packed as the kernel does: cs | gs << 16 | fs << 32
        cs.gregs[REG_CSGSFS] = (0x33u64 | (r.below(0x10000) << 16) | (r.below(0x10000) << 32) | (r.below(0x10000) << 48)) as i64;
        if r.chance(1, 3) {
            // the thread id recorded inside the crash context need not be the id the caller blames
            // (e.g. it was taken inside another pid namespace)
            let other = tid_of(r.below(n as u64) as usize);
            cs.tid = *r.pick(&[1, 7, PID + 3, other]);
            tags.push("ctx-tid-differs".into());
        }
        opts.crash = Some(cs);
        tags.push("crash".into());
    } else {
        tags.push("nocrash".into());
    }
    if r.chance(1, 5) {
        opts.size_limit = size_limit_choice(r, n);
    }
    tags.push(format!("blamed{}", which.min(7)));
    tags.push(format!("thr{}", match n { 1 => "1", 2..=5 => "2-5", 6..=24 => "6-24", _ => "25+" }));
    if opts.size_limit.is_some() {
        tags.push("limit".into());
    }
    b.world.fds.clear();
    let mut sc = simple_dump_scenario("C05", seed, "c05-attribution", b, opts);
    sc.events = events;
    sc.tags = tags;
    sc
}

fn exit_trigger(r: &mut Rng, nthreads: usize) -> (Trigger, &'static str) {
    match r.below(6) {
        0 => (Trigger { kind: CallKind::Opendir, nth: 0, path: Some("/task".into()) }, "before-enumeration"),
        1 => (Trigger { kind: CallKind::Readdir, nth: r.below(nthreads as u64 + 2) as u32, path: Some("/task".into()) }, "during-enumeration"),
        2 => (Trigger { kind: CallKind::PtraceAttach, nth: 0, path: None }, "before-first-attach"),
        3 => (Trigger { kind: CallKind::PtraceAttach, nth: r.below(nthreads as u64) as u32, path: None }, "between-attaches"),
        4 => (Trigger { kind: CallKind::Waitpid, nth: r.below(nthreads as u64) as u32, path: None }, "between-attach-and-wait"),
        _ => (Trigger { kind: CallKind::Open, nth: r.below(nthreads as u64) as u32, path: Some("/comm".into()) }, "at-name-read"),
    }
}

fn gen_c04(r: &mut Rng, seed: u64) -> Scenario {
    let n = thread_count(r);
    let mut b = build_world(r, &plain_cfg(n, 1));
    b.world.fds.clear();
    let mut tags = vec![format!("thr{}", match n { 1 => "1", 2..=5 => "2-5", 6..=24 => "6-24", _ => "25-64" })];
    let mut opts = Opts { blamed: tid_of(r.below(n as u64) as usize), ..Default::default() };
    // spinners
    let nspin = if r.coin() { r.range(1, (n as u64).min(4)) as usize } else { 0 };
    if nspin > 0 {
        tags.push("spinners".into());
        let words = b.add_anon(0x1000, "rw-p", r.next(), 1);
        for s in 0..nspin {
            let ti = r.below(n as u64) as usize;
            let tid = tid_of(ti);
            let (ss, sl) = stack_of(&b, tid);
            let t = &mut b.world.threads[ti];
            if t.program != Program::Parked {
                continue;
            }
            let sp = t.regs[R_RSP];
            let slot = (sp + 8 + r.below((ss + sl - sp - 16) / 8) * 8) & !7;
            let app = words + s as u64 * 64;
            t.program = Program::Spinner { stack_slot: slot, app_word: app };
            let r12 = t.regs[R_R12];
            b.world.plants.push((slot, r12));
            b.world.plants.push((app, r12));
            opts.app_memory.push((app, 8));
        }
    }
    // sandbox helper threads
    if r.chance(1, 5) && n > 1 {
        let ti = r.range(1, n as u64 - 1) as usize;
        if tid_of(ti) != opts.blamed {
            b.world.threads[ti].regs[R_RSP] = 0;
            tags.push("sandbox".into());
        }
    }
    if r.chance(1, 8) && n > 1 {
        let ti = r.range(1, n as u64 - 1) as usize;
        if tid_of(ti) != opts.blamed {
            b.world.threads[ti].foreign_tracer = true;
            tags.push("foreign-tracer".into());
        }
    }
    if r.chance(1, 5) {
        // unusual, non-null stack pointers: such threads are still ordinary threads
        let ti = r.below(n as u64) as usize;
        if b.world.threads[ti].program == Program::Parked {
            b.world.threads[ti].regs[R_RSP] = *r.pick(&[u64::MAX, 1, 8, 0x1000, u64::MAX - 7, 0xffff_8000_0000_0000]);
            tags.push("odd-sp".into());
        }
    }
    if r.chance(1, 12) && n > 1 && opts.blamed != PID {
        b.world.threads[0].zombie = true;
        b.world.threads[0].program = Program::Parked;
        tags.push("zombie-leader".into());
    }
    // stop behaviour
    match r.below(6) {
        0 => {
            opts.failspots |= 1;
            tags.push("stop-failspot".into());
        }
        1 => {
            for t in b.world.threads.iter_mut() {
                t.stop_latency_ns = r.below(300_000_000);
            }
            opts.stop_timeout_ms = Some(*r.pick(&[1u64, 10, 100]));
            tags.push("stop-late".into());
        }
        2 => {
            for t in b.world.threads.iter_mut() {
                t.stop_latency_ns = r.below(3_000_000);
            }
            tags.push("stop-staggered".into());
        }
        _ => {}
    }
    // exits
    let mut events = Vec::new();
    if r.chance(1, 2) && n > 1 {
        // threads of a stopped process cannot exit: make the stop fail or come late most of the time
        if !tags.iter().any(|t| t.starts_with("stop-")) && r.chance(3, 4) {
            if r.coin() {
                opts.failspots |= 1;
                tags.push("stop-failspot".into());
            } else {
                for t in b.world.threads.iter_mut() {
                    t.stop_latency_ns = 200_000_000 + r.below(300_000_000);
                }
                opts.stop_timeout_ms = Some(*r.pick(&[1u64, 10]));
                tags.push("stop-late".into());
            }
        }
        let k = match r.below(4) {
            0 => n - 1,
            _ => r.range(1, (n as u64 - 1).min(4)) as usize,
        };
        let mut chosen: Vec<usize> = (1..n).collect();
        r.shuffle(&mut chosen);
        let mut phases = Vec::new();
        for ti in chosen.into_iter().take(k) {
            let (trig, name) = exit_trigger(r, n);
            events.push(Event { trig, what: EventKind::ThreadExit { tid: tid_of(ti) } });
            if !phases.contains(&name) {
                phases.push(name);
            }
        }
        phases.sort();
        tags.push(format!("exits:{}", phases.join("/")));
    }
    if r.chance(1, 10) {
        // a thread that executes 32-bit code (a 64-bit program that far-jumped into the compatibility
        // segment, as Wine's WoW64 threads do): registers below 4 GiB, cs = 0x23
        let ti = r.below(n as u64) as usize;
        if !b.world.threads[ti].zombie && b.world.threads[ti].regs[R_RSP] != 0 && b.world.threads[ti].program == Program::Parked {
            let st = b.add_low(0x4000, "rw-p", r.next(), 6);
            let code = b.add_low(0x2000, "r-xp", r.next(), 7);
            let t = &mut b.world.threads[ti];
            t.compat32 = true;
            for x in t.regs.iter_mut() {
                *x &= 0xffff_ffff;
            }
            t.regs[R_CS] = 0x23;
            t.regs[R_RSP] = st + 0x2000 + 8 * r.below(256);
            t.regs[R_RIP] = code + r.below(0x1000);
            tags.push("thread-in-32bit-mode".into());
        }
    }
    let mut sc = simple_dump_scenario("C04", seed, "c04-threads", b, opts);
    reader_knob(r, &mut sc.faults, &mut tags);
    if r.chance(1, 6) {
        // a kernel without PTRACE_GETREGSET: every thread's registers come through the GETREGS /
        // GETFPREGS fallback
        sc.faults.push(FaultRule { trig: Trigger { kind: CallKind::PtraceGetregset, nth: 0, path: None }, effect: Effect::Errno(5), times: 1_000_000, exotic: false });
        tags.push("no-getregset".into());
    }
    if r.chance(1, 10) && n > 1 {
        events.push(Event { trig: Trigger { kind: CallKind::PtraceAttach, nth: r.below(n as u64) as u32, path: None }, what: EventKind::Spawn { tid: PID + 900 } });
        tags.push("spawn-during-dump".into());
    }
    if r.chance(1, 10) {
        // the target is killed outright (SIGKILL) once its threads are suspended
        let trig = match r.below(3) {
            0 => Trigger { kind: CallKind::DestWrite, nth: r.below(2) as u32, path: None },
            1 => Trigger { kind: CallKind::PtraceGetregset, nth: r.below(n as u64) as u32, path: None },
            _ => Trigger { kind: CallKind::Open, nth: r.below(2 * n as u64) as u32, path: Some("/status".into()) },
        };
        events.push(Event { trig, what: EventKind::KillProcess });
        tags.push("killed-while-suspended".into());
    }
    if r.chance(1, 6) {
        // a thread name that is not UTF-8 (legal: the kernel shows it raw on the `Name:` line of
        // /proc/<tid>/status, which the writer reads for every thread): the thread is still listed
        let ti = r.below(n as u64) as usize;
        sc.world.threads[ti].comm = B(invalid_utf8_comm(r));
        tags.push("name-not-utf8".into());
    }
    sc.events = events;
    sc.sched.steps_per_call = r.range(1, 7) as u32;
    sc.tags = tags;
    sc
}

/// The initial thread has exited (pthread_exit in main) while the process lives on: the leader
/// is a zombie whose /proc files are empty or cannot be opened. The blamed thread must be a live one.
fn zombie_leader(r: &mut Rng, b: &mut Built, opts: &mut Opts, tags: &mut Vec<String>) {
    let n = b.world.threads.len();
    if n < 2 {
        return;
    }
    if opts.blamed == PID {
        if opts.crash.is_some() {
            return;
        }
        opts.blamed = tid_of(r.range(1, n as u64 - 1) as usize);
    }
    b.world.threads[0].zombie = true;
    b.world.threads[0].program = Program::Parked;
    tags.push("zombie-leader".into());
}

fn gen_c06(r: &mut Rng, seed: u64, idx: u64) -> Scenario {
    // first 512*3 indices sweep every word-aligned page offset of the stack pointer under three limit classes
    let sweep = idx < 1536;
    let n = if sweep { if idx % 3 == 0 { 3 } else { 24 } } else { thread_count(r) };
    let mut cfg = plain_cfg(n, 0);
    cfg.stack_pages_min = 1;
    cfg.stack_pages_max = if n > 24 { 8 } else { 64 };
    cfg.link_map = false;
    let mut b = build_world(r, &cfg);
    b.world.fds.clear();
    let mut tags = vec![format!("thr{}", match n { 1 => "1", 2..=5 => "2-5", 6..=24 => "6-24", _ => "25-64" })];
    let mut opts = Opts { blamed: PID, ..Default::default() };
    for ti in 0..n {
        let tid = tid_of(ti);
        let (ss, sl) = stack_of(&b, tid);
        let pages = sl / 0x1000;
        let off = if sweep { (idx / 3) * 8 } else {
            match r.below(6) {
                0 => *r.pick(&[0u64, 8, 2040, 2048, 2056, 4088]),
                1 => r.below(4096),
                _ => r.below(512) * 8,
            }
        };
        let page = r.below(pages);
        let mut sp = ss + page * 0x1000 + off;
        if !sweep {
            match r.below(14) {
                0 => sp = ss - 0x1000 + r.below(512) * 8, // inside the guard page (non-main) / unmapped (main)
                1 => sp = ss - *r.pick(&[2u64, 16, 100, 255]) * 0x1000 + r.below(512) * 8,
                2 => sp = ss - *r.pick(&[300u64, 1000]) * 0x1000,
                _ => {}
            }
        }
        b.world.threads[ti].regs[R_RSP] = sp;
        if !sweep && ti > 0 && r.chance(1, 16) {
            // a stack made read-only (mprotect): still readable memory
            if let Some(reg) = b.world.regions.iter_mut().find(|g| g.start == ss) {
                reg.perms = "r--p".into();
                if !tags.contains(&"readonly-stack".to_string()) {
                    tags.push("readonly-stack".into());
                }
            }
        }
        if !sweep && r.chance(1, 16) {
            // an executable stack (-z execstack, READ_IMPLIES_EXEC, a runtime running threads on rwx memory)
            if let Some(reg) = b.world.regions.iter_mut().find(|g| g.start == ss) {
                if reg.perms == "rw-p" {
                    reg.perms = "rwxp".into();
                    if !tags.contains(&"executable-stack".to_string()) {
                        tags.push("executable-stack".into());
                    }
                }
            }
        }
        if !sweep && tags.len() < 8 {
            let cls = if sp < ss { if ss - sp <= 0x1000 { "sp-guard" } else if ss - sp <= 0x100000 { "sp-below" } else { "sp-far-below" } } else if sp & 7 != 0 { "sp-unaligned" } else if off >= 2048 { "sp-upper-half" } else { "sp-lower-half" };
            let cls = format!("{}{}", cls, if ti >= 20 { "@late" } else { "" });
            if !tags.contains(&cls) {
                tags.push(cls);
            }
        }
    }
    if sweep {
        tags.push(format!("sweep-off{}", (idx / 3) / 64));
    }
    let limit_class = if sweep { idx % 3 } else { r.below(4) };
    match limit_class {
        1 => {
            opts.size_limit = Some(1);
            tags.push("limit-tiny".into());
        }
        2 => {
            opts.size_limit = size_limit_choice(r, n);
            tags.push("limit-threshold".into());
        }
        _ => {}
    }
    if r.chance(1, 3) {
        let ti = if n > 20 && r.coin() { r.range(20, n as u64 - 1) as usize } else { r.below(n as u64) as usize };
        let tid = tid_of(ti);
        opts.blamed = tid;
        let (ss, sl) = stack_of(&b, tid);
        let rsp = ss + r.below(sl / 8) * 8;
        let exe = &b.modules[0];
        opts.crash = Some(crash_spec(r, tid, rsp, exe.base + exe.image.text_off + 0x300));
        tags.push(if ti >= 20 { "crash-late-thread".into() } else { "crash".into() });
    }
    if !sweep && n > 1 && r.chance(1, 8) {
        // a thread whose stack pointer has run into its guard page, with something unusual below or
        // around that page
        let ti = r.range(1, n as u64 - 1) as usize;
        let (ss, _sl) = stack_of(&b, tid_of(ti));
        let guard = ss - 0x1000;
        let free = |b: &Built, lo: u64, hi: u64| !b.world.regions.iter().any(|g| g.start < hi && lo < g.end());
        if b.world.regions.iter().any(|g| g.start == guard && g.perms == "---p" && g.len == 0x1000) {
            if r.coin() {
                // a library loaded after the thread was created sits directly below the guard page
                // (the kernel places it there); the guard page then looks like the linker's reserved
                // range behind an executable mapping
                let lo = guard - 0x3000;
                if free(&b, lo, guard) {
                    b.world.regions.push(RegionSpec { start: lo, len: 0x1000, perms: "r--p".into(), offset: 0, inode: 7373, name: B::s("/usr/lib/libloadedlater.so.1"), deleted: false, content: Content::Pattern(r.next()) });
                    b.world.regions.push(RegionSpec { start: lo + 0x1000, len: 0x2000, perms: "r-xp".into(), offset: 0x1000, inode: 7373, name: B::s("/usr/lib/libloadedlater.so.1"), deleted: false, content: Content::Pattern(r.next()) });
                    b.world.regions.sort_by_key(|g| g.start);
                    b.world.threads[ti].regs[R_RSP] = guard + r.below(512) * 8;
                    tags.push("library-below-guard-page".into());
                }
            } else {
                // a guard region of 4 MiB (pthread_attr_setguardsize), stack pointer more than the
                // guard distance below the stack
                let lo = ss - 0x40_0000;
                if free(&b, lo, guard) {
                    if let Some(g) = b.world.regions.iter_mut().find(|g| g.start == guard) {
                        g.start = lo;
                        g.len = 0x40_0000;
                    }
                    b.world.regions.sort_by_key(|g| g.start);
                    b.world.threads[ti].regs[R_RSP] = ss - 0x10_1000 - 0x1000 * r.range(1, 600) + r.below(512) * 8;
                    tags.push("deep-in-large-guard".into());
                }
            }
        }
    }
    if !sweep && n > 1 && r.chance(1, 8) {
        // glibc >= 2.42 on Linux >= 6.13: the guard of a thread stack is installed with
        // madvise(MADV_GUARD_INSTALL) inside the stack's own rw- mapping. The memory map shows one
        // ordinary mapping; the guard pages cannot be read by any remote strategy.
        let ti = r.range(1, n as u64 - 1) as usize;
        let (ss, _sl) = stack_of(&b, tid_of(ti));
        let guard = ss - 0x1000;
        if let Some(gi) = b.world.regions.iter().position(|g| g.start == guard && g.perms == "---p" && g.len == 0x1000) {
            b.world.regions.remove(gi);
            if let Some(st) = b.world.regions.iter_mut().find(|g| g.start == ss) {
                st.start = guard;
                st.len += 0x1000;
            }
            b.world.no_remote.push((guard, 0x1000));
            // now and then something readable is mapped directly behind the stack (a neighbouring
            // allocation with another protection)
            let send = b.world.regions.iter().find(|g| g.start == guard).map(|g| g.end()).unwrap_or(0);
            if r.coin() && send != 0 && !b.world.regions.iter().any(|g| g.start < send + 0x3000 && send < g.end()) {
                b.world.regions.push(RegionSpec { start: send, len: 0x2000, perms: "r--p".into(), offset: 0, inode: 0, name: B(Vec::new()), deleted: false, content: Content::Pattern(r.next()) });
                b.world.regions.sort_by_key(|g| g.start);
                tags.push("readable-behind-stack".into());
            }
            if r.coin() {
                // stack overflow: the stack pointer has run into the guard pages
                b.world.threads[ti].regs[R_RSP] = guard + r.below(512) * 8;
                tags.push("sp-in-installed-guard".into());
            } else {
                tags.push("installed-guard".into());
            }
        }
    }
    if !sweep && n > 2 && r.chance(1, 8) {
        // ... and because such guards are no mappings of their own, thread stacks allocated one after the
        // other merge into a single mapping: guard, stack, guard, stack. A read from the lower stack to
        // the end of the mapping runs into the upper stack's guard.
        let (ta, tb) = (1usize, 2usize);
        let (pa, pb) = (r.range(1, 6), r.range(1, 6));
        let start = b.add_anon((pa + pb + 2) * 0x1000, "rw-p", r.next(), 3);
        let (ga, sa) = (start, start + 0x1000);
        let (gb, sb) = (sa + pa * 0x1000, sa + pa * 0x1000 + 0x1000);
        b.world.no_remote.push((ga, 0x1000));
        b.world.no_remote.push((gb, 0x1000));
        b.world.threads[ta].regs[R_RSP] = sa + r.below(pa * 512) * 8;
        b.world.threads[tb].regs[R_RSP] = sb + r.below(pb * 512) * 8;
        tags.push("stacks-share-one-mapping".into());
    }
    if !sweep && r.chance(1, 10) {
        // a thread running on a stack below the executable (MAP_32BIT / fixed low mapping)
        let ti = r.below(n as u64) as usize;
        let pages = r.range(1, 8);
        let guard = b.add_low(0x1000, "---p", 0, 5);
        let st = guard + 0x1000;
        b.world.regions.push(RegionSpec { start: st, len: pages * 0x1000, perms: "rw-p".into(), offset: 0, inode: 0, name: B(Vec::new()), deleted: false, content: Content::Pattern(r.next()) });
        b.world.regions.sort_by_key(|g| g.start);
        b.world.threads[ti].regs[R_RSP] = st + r.below(pages * 512) * 8;
        tags.push("stack-below-executable".into());
    }
    if !sweep && r.chance(1, 12) {
        zombie_leader(r, &mut b, &mut opts, &mut tags);
    }
    let mut sc = simple_dump_scenario("C06", seed, if sweep { "c06-sp-offset-sweep" } else { "c06-random" }, b, opts);
    if !sweep {
        reader_knob(r, &mut sc.faults, &mut tags);
    }
    sc.tags = tags;
    sc
}

fn gen_c07(r: &mut Rng, seed: u64) -> Scenario {
    let n = thread_count(r).min(40);
    let mut cfg = plain_cfg(n, r.below(3) as usize);
    cfg.stack_pages_max = 4;
    cfg.lib_gaps = r.coin();
    let mut b = build_world(r, &cfg);
    b.world.fds.clear();
    let mut tags = Vec::new();
    let mut opts = Opts { blamed: tid_of(r.below(n as u64) as usize), ..Default::default() };
    let nreg = r.below(9);
    for _ in 0..nreg {
        let len = match r.below(8) {
            0 => 1,
            1 => r.range(2, 17),
            2 => *r.pick(&[4095u64, 4096, 4097]),
            3 => *r.pick(&[65535u64, 65536, 1 << 20]),
            _ => r.range(1, 20000),
        };
        let pages = (len + 0xfff) / 0x1000 + 1;
        // private pages the target itself cannot read are still part of its memory (the writer
        // reaches them through /proc/pid/mem or ptrace)
        let perms = match r.below(10) {
            0 => "-w-p",
            1 => "---p",
            _ => "rw-p",
        };
        if perms != "rw-p" && !tags.contains(&"app-unreadable-perms".to_string()) {
            tags.push("app-unreadable-perms".into());
        }
        let start = b.add_anon(pages * 0x1000, perms, r.next(), 1);
        if perms == "rw-p" && len > 1 && r.chance(1, 8) {
            // a region that starts in readable pages and continues into pages of the same arena that
            // the target itself cannot access (reserved, not yet committed): still the target's memory
            let tail = b.add_anon(0x2000, *r.pick(&["---p", "-w-p"]), r.next(), 0);
            let into = r.range(1, (len - 1).min(0x1800));
            opts.app_memory.push((tail + into - len, len));
            if !tags.contains(&"app-straddles-protection".to_string()) {
                tags.push("app-straddles-protection".into());
            }
            continue;
        }
        let ptr = match r.below(6) {
            0 => start,
            1 => start + pages * 0x1000 - len,     // ends exactly at the mapping end (hole follows)
            2 => start + pages * 0x1000 - len - 1, // one byte before the end
            3 if len > 1 => start + pages * 0x1000 - (len / 2).max(1), // crosses the end: partial copy
            _ => start + r.below(pages * 0x1000 - len + 1),
        };
        opts.app_memory.push((ptr, len));
        let cls = format!("len{}:{}", match len { 1 => "1", 2..=17 => "2-17", 18..=4094 => "small", 4095..=4097 => "page", _ => "big" }, (ptr & 7));
        if !tags.contains(&cls) && tags.len() < 6 {
            tags.push(cls);
        }
    }
    if !opts.app_memory.is_empty() && r.chance(1, 6) {
        // two requested regions with the same start and different lengths (a header and the whole
        // object it belongs to); also the same region requested twice
        let (p0, l0) = opts.app_memory[r.below(opts.app_memory.len() as u64) as usize];
        if l0 > 1 && b.world.regions.iter().any(|g| g.start <= p0 && p0 + l0 <= g.end() && g.perms == "rw-p") {
            opts.app_memory.push((p0, r.range(1, l0 - 1)));
            if r.coin() {
                opts.app_memory.push((p0, l0));
            }
            tags.push("app-same-start".into());
        }
    }
    tags.sort();
    tags.push(format!("app{}", nreg.min(3)));
    tags.push(format!("thr{}", match n { 1 => "1", 2..=5 => "2-5", 6..=24 => "6-24", _ => "25+" }));
    if r.chance(2, 3) {
        let tid = opts.blamed;
        let (ss, sl) = stack_of(&b, tid);
        let rsp = ss + sl / 2 + r.below(sl / 16) * 8;
        let m = r.pick(&b.modules);
        let (lo, hi) = (m.base, m.base + m.image.mapped_len);
        // two different anonymous mappings back to back
        let adj_a = b.add_anon(0x2000, "rw-p", r.next(), 2);
        let adj_b = b.add_anon(0x2000, "r-xp", r.next(), 0);
        let _ = adj_a;
        let gapped: Option<u64> = b.modules.iter().find(|m| m.image.data_vaddr > m.image.data_off).map(|m| m.base + m.image.text_off + m.image.text_len);
        let low: Option<u64> = if r.chance(1, 4) { Some(b.add_low(0x2000, "r-xp", r.next(), r.below(4))) } else { None };
        let (rip, pos) = match r.below(13) {
            6 | 7 if low.is_some() => (low.unwrap() + *r.pick(&[0u64, 100, 0x1000, 0x1fff]), "below-executable"),
            6 => (VSYSCALL + *r.pick(&[0u64, 0x400, 0xfff]), "vsyscall-page"),
            11 | 12 if gapped.is_some() => (gapped.unwrap() - 1 - r.below(120), "before-reserved-gap"),
            8 => (adj_b, "adjacent-start"),
            9 => (adj_b - 1, "adjacent-end-1"),
            10 => (adj_b + 0x2000 - 1, "adjacent-last-byte"),
            0 => (lo, "start"),
            1 => (lo + 127, "start+127"),
            2 => (lo + 128, "start+128"),
            3 => (hi - 128, "end-128"),
            4 => (hi - 1, "end-1"),
            5 => (0x3000, "unmapped"),
            _ => (lo + 200 + r.below(hi - lo - 400), "inside"),
        };
        opts.crash = Some(crash_spec(r, tid, rsp, rip));
        tags.push(format!("ip-{}", pos));
        if n > 1 && r.chance(1, 10) {
            // the blamed thread is being traced by another process: the writer cannot attach to it and
            // leaves it out of the thread list; the crash context is known all the same
            if let Some(t) = b.world.threads.iter_mut().find(|t| t.tid == tid) {
                t.foreign_tracer = true;
            }
            tags.push("blamed-not-attachable".into());
        }
    }
    if r.chance(1, 4) {
        opts.size_limit = size_limit_choice(r, n);
        if opts.size_limit.is_some() {
            tags.push("limit".into());
        }
    }
    if r.chance(1, 12) {
        zombie_leader(r, &mut b, &mut opts, &mut tags);
    }
    let mut sc = simple_dump_scenario("C07", seed, "c07-memory-list", b, opts);
    reader_knob(r, &mut sc.faults, &mut tags);
    sc.tags = tags;
    sc
}

fn gen_c20(r: &mut Rng, seed: u64) -> Scenario {
    let limit_on = r.chance(1, 4);
    let n = if limit_on { r.range(21, 40) as usize } else { (thread_count(r)).min(24) };
    let mut cfg = plain_cfg(n, 2);
    cfg.stack_pages_max = 4;
    let mut b = build_world(r, &cfg);
    b.world.fds.clear();
    let mut tags = Vec::new();
    let mut opts = Opts { blamed: tid_of(r.below(n as u64) as usize), skip_unref: true, ..Default::default() };
    // two different anonymous mappings back to back, followed by a hole
    let adj_a = b.add_anon(0x2000, "r--p", r.next(), 3);
    let adj_b = b.add_anon(0x2000, "rw-p", r.next(), 0);
    // principal mapping: a library, the exe, an anonymous region, or nothing
    let low: Option<u64> = if r.chance(1, 4) { Some(b.add_low(0x3000, *r.pick(&["r-xp", "rw-p"]), r.next(), r.below(4))) } else { None };
    if low.is_some() {
        tags.push("mapped-below-executable".into());
    }
    if r.chance(1, 3) {
        opts.sanitize = true;
        tags.push("sanitize".into());
    }
    let pm: Option<(u64, u64)> = match r.below(11) {
        2 | 3 if low.is_some() => {
            let lo = low.unwrap();
            opts.principal = Some(lo + r.below(0x3000));
            tags.push("principal-below-executable".into());
            Some((lo, lo + 0x3000))
        }
        8 => {
            // first byte of a mapping that directly follows another one
            opts.principal = Some(adj_b);
            tags.push("principal-at-seam".into());
            Some((adj_b, adj_b + 0x2000))
        }
        9 => {
            opts.principal = Some(adj_b - 1);
            tags.push("principal-before-seam".into());
            Some((adj_a, adj_a + 0x2000))
        }
        10 => {
            // the end address of a mapping that is followed by a hole: no mapping
            opts.principal = Some(adj_b + 0x2000);
            tags.push("principal-at-end-before-hole".into());
            None
        }
        0 => {
            opts.principal = Some(0x1_0000);
            tags.push("principal-unmapped".into());
            None
        }
        1 => {
            tags.push("principal-unset".into());
            None
        }
        _ => {
            let m = r.pick(&b.modules);
            let (lo, hi) = (m.base, m.base + m.image.mapped_len);
            opts.principal = Some(match r.below(4) {
                0 => lo,
                1 => hi - 1,
                _ => lo + r.below(hi - lo),
            });
            tags.push("principal-module".into());
            Some((lo, hi))
        }
    };
    let mut kinds: Vec<&'static str> = Vec::new();
    for ti in 0..n {
        let tid = tid_of(ti);
        let (ss, sl) = stack_of(&b, tid);
        let sp_unaligned = r.chance(1, 6);
        let mut sp = ss + sl / 2 + r.below(sl / 4 / 8) * 8;
        if limit_on && ti >= 20 && r.coin() {
            // upper half of its page: the shortened region must skip the first 2 KiB chunk
            sp = (sp & !0xfff) + 2048 + (sp & 0x7f8);
        }
        if sp_unaligned {
            sp += r.range(1, 7);
        }
        b.world.threads[ti].regs[R_RSP] = sp;
        let Some((lo, hi)) = pm else { continue };
        let inside = lo + r.below(hi - lo);
        let first_word = (sp + 7) & !7;
        if (lo == adj_b || lo == adj_a) && r.chance(1, 3) {
            // a pointer into the neighbouring mapping is not a reference
            let other = if lo == adj_b { adj_a } else { adj_b };
            b.world.plants.push((first_word + 8, other + r.below(0x2000)));
            if !kinds.contains(&"ptr-into-neighbour") {
                kinds.push("ptr-into-neighbour");
            }
            continue;
        }
        let last_word = ss + sl - 8;
        // with a size limit, late threads' stacks are cut to 2 KiB: only references near the stack
        // pointer are unambiguous then
        let pick = if limit_on { *r.pick(&[0u64, 1, 2, 4, 6, 9, 2, 9]) } else { r.below(10) };
        let kind = match pick {
            0 => {
                b.world.threads[ti].regs[R_RIP] = inside;
                "ip-inside"
            }
            1 => {
                b.world.threads[ti].regs[R_RIP] = hi; // one past the end: outside
                "ip-at-end"
            }
            2 => {
                b.world.plants.push((first_word, inside));
                "ptr-at-sp"
            }
            3 => {
                b.world.plants.push((last_word, inside));
                "ptr-last-word"
            }
            4 => {
                if sp_unaligned {
                    // the aligned word that begins below a misaligned stack pointer and runs across it:
                    // not a word at or above the stack pointer
                    b.world.plants.push((first_word - 8, inside));
                    "ptr-word-across-sp"
                } else {
                    b.world.plants.push((first_word - 16, inside)); // below the stack pointer only
                    "ptr-below-sp"
                }
            }
            5 => {
                b.world.plants.push((first_word + 8 * r.range(1, 20) + 3, inside)); // unaligned only
                "ptr-unaligned"
            }
            6 => {
                b.world.plants.push((first_word + 8 * r.range(1, 20), hi)); // == end address: outside
                "ptr-end-address"
            }
            7 => {
                b.world.plants.push((first_word + 8 * r.range(1, 20), lo));
                "ptr-start-address"
            }
            8 => {
                b.world.plants.push((first_word + 8 * r.below((last_word - first_word) / 8), inside));
                "ptr-somewhere"
            }
            _ => "nothing",
        };
        if !kinds.contains(&kind) {
            kinds.push(kind);
        }
    }
    kinds.sort();
    tags.push(kinds.join("/"));
    if r.coin() {
        let tid = opts.blamed;
        let ti = b.world.threads.iter().position(|t| t.tid == tid).unwrap();
        let rsp = b.world.threads[ti].regs[R_RSP];
        let rip = b.world.threads[ti].regs[R_RIP];
        opts.crash = Some(crash_spec(r, tid, rsp, rip));
        tags.push("crash".into());
    }
    if limit_on {
        opts.size_limit = Some(1);
        tags.push("limit".into());
    }
    let mut sc = simple_dump_scenario("C20", seed, "c20-stack-filter", b, opts);
    reader_knob(r, &mut sc.faults, &mut tags);
    sc.tags = tags;
    sc
}

fn gen_c17(r: &mut Rng, seed: u64, idx: u64) -> Scenario {
    // address space: [readable run][hole][readable run][PROT_NONE run][readable run][hole]
    let mut b = build_world(r, &plain_cfg(1, 0));
    b.world.fds.clear();
    let pages = |r: &mut Rng| r.range(1, 3) * 0x1000;
    let l1 = pages(r);
    let a1 = b.add_anon(l1, "rw-p", r.next(), 4);
    let l2 = pages(r).max(0x12000 * (r.below(2)));
    let l2 = if l2 == 0 { 0x1000 } else { l2 };
    let a2 = b.add_anon(l2, "r--p", r.next(), 1);
    let l3 = pages(r);
    let a3 = b.add_anon(l3, "---p", r.next(), 0);
    let l4 = pages(r);
    let a4 = b.add_anon(l4, "rw-p", r.next(), 0);
    let runs = [(a1, l1, true), (a2, l2, true), (a3, l3, false), (a4, l4, true)];
    let mut ops = Vec::new();
    let mut tags = Vec::new();
    let grid = idx < 64;
    let lens: Vec<u64> = (1..=17).chain([4095, 4096, 4097, 65535, 65536]).collect();
    let nops = if grid { lens.len() * 3 } else { r.range(1, 12) as usize };
    for i in 0..nops {
        let (start, len_run, _rd) = *r.pick(&runs);
        let len = if grid { lens[i % lens.len()] } else {
            match r.below(5) {
                0 => r.range(1, 17),
                1 => *r.pick(&[4095u64, 4096, 4097]),
                2 => *r.pick(&[65535u64, 65536]),
                _ => r.range(1, 9000),
            }
        };
        let align = if grid { idx % 8 } else { r.below(8) };
        let pos_kind = if grid { (i / lens.len()) as u64 } else { r.below(4) };
        let end = start + len_run;
        let src = match pos_kind {
            0 => start + align + 8 * r.below(4),                          // inside, near the run start
            1 => end.saturating_sub(len),                                   // ends exactly at the end of the run
            2 => end.saturating_sub(len / 2 + 1),                           // crosses the end of the run
            _ => start + r.below(len_run),
        };
        let src = if pos_kind == 1 && grid { src } else { src };
        let strategy = if grid { ((idx / 8) % 4) as u8 } else { r.below(4) as u8 };
        ops.push(MemReadOp { strategy, src, len });
        let t = format!("s{}", strategy);
        if !tags.contains(&t) {
            tags.push(t);
        }
    }
    tags.sort();
    let mut faults = Vec::new();
    if !grid && r.chance(1, 4) {
        // force the fallbacks of the auto-probing reader
        faults.push(FaultRule { trig: Trigger { kind: CallKind::Vmreadv, nth: 0, path: None }, effect: Effect::Errno(*r.pick(&[38, 1])), times: 1000, exotic: false });
        tags.push("vm-unavailable".into());
        if r.coin() {
            faults.push(FaultRule { trig: Trigger { kind: CallKind::Open, nth: 0, path: Some("/mem".into()) }, effect: Effect::Errno(13), times: 1000, exotic: false });
            tags.push("mem-file-unavailable".into());
        }
        for o in ops.iter_mut() {
            o.strategy = 3;
        }
    }
    let mut events = Vec::new();
    if !grid && faults.is_empty() && r.chance(1, 6) {
        // the target is killed while the readers are in use
        let kind = *r.pick(&[CallKind::Vmreadv, CallKind::Pread, CallKind::PtracePeekdata]);
        events.push(Event { trig: Trigger { kind, nth: r.below(6) as u32, path: None }, what: EventKind::KillProcess });
        tags.push("target-killed".into());
    }
    Scenario {
        prop: "C17".into(),
        seed,
        profile: if grid { "c17-boundary-grid".into() } else { "c17-random".into() },
        world: b.world,
        workload: Workload::MemRead(ops),
        events,
        faults,
        sched: Sched::default(),
        tags,
    }
}

const FAILSPOT_EXPECT: [(&str, &[&str]); 5] = [
    ("expect:InitErrors/StopProcessFailed", &[]),
    ("expect:InitErrors/FillMissingAuxvInfoErrors", &[]),
    ("expect:EnumerateThreadsErrors/ReadThreadNameFailed", &["affects:names"]),
    ("expect:SuspendThreadsErrors/PtraceAttachError", &[]),
    ("expect:WriteSystemInfoErrors/WriteCpuInformationFailed", &["affects:sysinfo"]),
];

fn push_tags(tags: &mut Vec<String>, xs: &[&str]) {
    for x in xs {
        if !tags.iter().any(|t| t == x) {
            tags.push(x.to_string());
        }
    }
}

fn last_open_index(clean: &crate::run::RunResult, path: &str) -> Option<u32> {
    let d = clean.dumps.first()?;
    let n = d.kernel_after.gt.opens.iter().filter(|(p, _)| p == path.as_bytes()).count();
    if n == 0 {
        None
    } else {
        Some(n as u32 - 1)
    }
}

fn gen_c11(r: &mut Rng, seed: u64, idx: u64) -> Scenario {
    let fixed = idx < 256;
    let n = if fixed { [1usize, 2, 5, 24][((idx / 32) % 4) as usize] } else { *r.pick(&[1usize, 2, 3, 5, 8, 24]) };
    let mut cfg = plain_cfg(n, 1);
    cfg.nfds = 3;
    let mut b = build_world(r, &cfg);
    let blamed = if fixed { PID } else { tid_of(r.below(n as u64) as usize) };
    let mut opts = Opts { blamed, ..Default::default() };
    let with_crash = if fixed { (idx / 128) % 2 == 1 } else { r.coin() };
    if with_crash {
        let (ss, sl) = stack_of(&b, blamed);
        let exe = &b.modules[0];
        let rip = exe.base + exe.image.text_off + 0x180;
        opts.crash = Some(crash_spec(r, blamed, ss + sl / 2, rip));
    }
    let mut tags: Vec<String> = vec![format!("n{}", n), if with_crash { "crash".into() } else { "nocrash".into() }];
    let mut faults: Vec<FaultRule> = Vec::new();
    let mut events: Vec<Event> = Vec::new();
    if fixed {
        opts.failspots = (idx % 32) as u8;
        for bit in 0..5 {
            if opts.failspots & (1 << bit) != 0 {
                push_tags(&mut tags, &[FAILSPOT_EXPECT[bit].0]);
                push_tags(&mut tags, FAILSPOT_EXPECT[bit].1);
            }
        }
        tags.push(format!("failspots{:05b}", opts.failspots));
        let mut sc = simple_dump_scenario("C11", seed, "c11-failspot-subsets", b, opts);
        sc.tags = tags;
        return sc;
    }
    // natural failures: one or two kinds per run (sometimes none: the list must then be empty)
    let clean = {
        let sc = simple_dump_scenario("C11", seed, "c11-pre", Built { world: b.world.clone(), modules: Vec::new(), stacks: Vec::new(), heap: b.heap, vdso_base: b.vdso_base, anon_next: b.anon_next }, opts.clone());
        crate::run::run(&sc, &crate::run::RunOpts { settle_rounds: 0, ..Default::default() })
    };
    let nkinds = match r.below(8) {
        0 => 0,
        1..=5 => 1,
        _ => 2,
    };
    let mut used: Vec<u64> = Vec::new();
    let mut file_copy: Vec<(String, &str, &str, i32)> = Vec::new();
    for _ in 0..nkinds {
        let kind = r.below(17);
        if used.contains(&kind) {
            continue;
        }
        used.push(kind);
        let open_fault = |path: &str, nth: u32, e: i32| FaultRule { trig: Trigger { kind: CallKind::Open, nth, path: Some(path.to_string()) }, effect: Effect::Errno(e), times: 1, exotic: false };
        match kind {
            0 => {
                faults.push(FaultRule { trig: Trigger { kind: CallKind::Kill, nth: 0, path: None }, effect: Effect::Errno(1), times: 1, exotic: false });
                push_tags(&mut tags, &["expect:InitErrors/StopProcessFailed", "stop-eperm"]);
            }
            1 => {
                for t in b.world.threads.iter_mut() {
                    t.stop_latency_ns = 500_000_000;
                }
                opts.stop_timeout_ms = Some(*r.pick(&[1u64, 5, 20]));
                push_tags(&mut tags, &["expect:InitErrors/StopProcessFailed", "stop-timeout"]);
            }
            2 if b.world.auxv_cut == 0 => {
                b.world.auxv_missing = true;
                push_tags(&mut tags, &["expect:InitErrors/FillMissingAuxvInfoFailed", "expect:*/WriteAuxvFailed", "expect:*/WriteDSODebugStreamFailed", "affects:modules", "affects:dso", "affects:raw0x47670008", "auxv-missing"]);
            }
            3 if !b.world.auxv_missing => {
                b.world.auxv_cut = *r.pick(&[8u64, 16, 24]);
                push_tags(&mut tags, &["expect:InitErrors/FillMissingAuxvInfoErrors", "affects:raw0x47670008", "auxv-truncated"]);
            }
            4 => {
                let mut any = false;
                for t in b.world.threads.iter_mut() {
                    if r.chance(1, 2) {
                        any = true;
                        match r.below(4) {
                            0 => t.comm_fault = Some("enoent".into()),
                            1 => t.comm_fault = Some("eacces".into()),
                            2 => t.comm_fault = Some("eio".into()),
                            _ => t.comm = B(invalid_utf8_comm(r)),
                        }
                    }
                }
                if any {
                    push_tags(&mut tags, &["expect:EnumerateThreadsErrors/ReadThreadNameFailed", "affects:names", "names-unreadable"]);
                }
            }
            5 => {
                // some threads cannot be attached to
                let all = r.chance(1, 6);
                let mut any = false;
                for (i, t) in b.world.threads.iter_mut().enumerate() {
                    if all || (t.tid != blamed && r.chance(1, 2) && i > 0) {
                        t.foreign_tracer = true;
                        any = true;
                    }
                }
                if any {
                    push_tags(&mut tags, &["expect:SuspendThreadsErrors/PtraceAttachError", "affects:threads", "affects:memory", "affects:names", "attach-eperm"]);
                    if all {
                        push_tags(&mut tags, &["expect:*/SuspendNoThreadsLeft", "affects:exception", "affects:raw0x47670004", "attach-none"]);
                    }
                }
            }
            6 => {
                if n > 1 {
                    let ti = r.range(1, n as u64 - 1) as usize;
                    if tid_of(ti) != blamed {
                        // a thread can only exit between enumeration and attach if the process is not stopped
                        if !tags.iter().any(|t| t == "stop-eperm") {
                            faults.push(FaultRule { trig: Trigger { kind: CallKind::Kill, nth: 0, path: None }, effect: Effect::Errno(1), times: 1, exotic: false });
                            push_tags(&mut tags, &["expect:InitErrors/StopProcessFailed", "stop-eperm"]);
                        }
                        events.push(Event { trig: Trigger { kind: CallKind::PtraceAttach, nth: 0, path: None }, what: EventKind::ThreadExit { tid: tid_of(ti) } });
                        push_tags(&mut tags, &["expect:SuspendThreadsErrors/PtraceAttachError", "affects:threads", "affects:memory", "affects:names", "affects:raw0x47670004", "attach-esrch"]);
                    }
                }
            }
            7 => {
                let e = *r.pick(&[2, 13, 24]);
                faults.push(open_fault("/proc/cpuinfo", 0, e));
                push_tags(&mut tags, &["expect:WriteSystemInfoErrors/WriteCpuInformationFailed", "affects:sysinfo", "cpuinfo-open"]);
                if r.coin() {
                    faults.push(open_fault("/proc/cpuinfo", 1, e));
                    push_tags(&mut tags, &["expect:*/WriteCpuInfoFailed", "affects:raw0x47670003"]);
                }
            }
            8 => {
                let drop = *r.pick(&["model\t", "stepping", "cpu family", "processor"]);
                if let Some(c) = &b.world.cpuinfo {
                    let text = String::from_utf8_lossy(&c.0).into_owned();
                    let kept: Vec<&str> = text.split('\n').filter(|l| !l.starts_with(drop)).collect();
                    b.world.cpuinfo = Some(B(kept.join("\n").into_bytes()));
                }
                push_tags(&mut tags, &["expect:WriteSystemInfoErrors/WriteCpuInformationFailed", "affects:sysinfo", "affects:raw0x47670003", "cpuinfo-fields"]);
            }
            9 | 10 => {
                let files: [(&str, &str, &str); 6] = [
                    ("status", "expect:*/WriteThreadProcStatusFailed", "affects:raw0x47670004"),
                    ("cmdline", "expect:*/WriteCommandLineFailed", "affects:raw0x47670006"),
                    ("environ", "expect:*/WriteEnvironmentFailed", "affects:raw0x47670007"),
                    ("auxv", "expect:*/WriteAuxvFailed", "affects:raw0x47670008"),
                    ("maps", "expect:*/WriteMapsFailed", "affects:raw0x47670009"),
                    ("limits", "expect:*/WriteLimitsFailed", "affects:raw0x4d7a0003"),
                ];
                let (f, exp, aff) = *r.pick(&files);
                let path = format!("/proc/{}/{}", blamed, f);
                // which open feeds the raw stream depends on everything else injected: decided below
                file_copy.push((path, exp, aff, *r.pick(&[2, 13, 24])));
            }
            11 => {
                faults.push(open_fault("/etc/lsb-release", 0, 2));
                if r.coin() {
                    faults.push(open_fault("/etc/os-release", 0, 13));
                    push_tags(&mut tags, &["expect:*/WriteOsReleaseInfoFailed", "affects:raw0x47670005", "release-both"]);
                } else {
                    push_tags(&mut tags, &["affects:raw0x47670005", "release-fallback"]);
                }
            }
            12 => {
                b.world.auxv.retain(|(k, _)| *k != AT_PHDR);
                push_tags(&mut tags, &["expect:*/WriteDSODebugStreamFailed", "affects:dso", "affects:raw0x47670008", "no-at-phdr"]);
            }
            13 => {
                for kv in b.world.auxv.iter_mut() {
                    if kv.0 == AT_PHDR {
                        kv.1 = 0x1000;
                    }
                }
                push_tags(&mut tags, &["expect:*/WriteDSODebugStreamFailed", "affects:dso", "affects:raw0x47670008", "phdr-unreadable"]);
            }
            14 => {
                if let Some(off) = b.modules[0].image.dt_debug_val_off {
                    b.world.plants.push((EXE_BASE + off, 0x2000));
                    push_tags(&mut tags, &["expect:*/WriteDSODebugStreamFailed", "affects:dso", "affects:memory", "affects:threads", "r_debug-unreadable"]);
                }
            }
            15 => {
                b.world.fd_dir_fails = true;
                push_tags(&mut tags, &["expect:*/WriteHandleDataStreamFailed", "affects:handles", "fd-dir"]);
            }
            16 => {
                // the name pointer of a linker-list entry is not readable (a name that merely is not UTF-8
                // is no failure: it is recorded with replacement characters)
                if crate::gen::spoil_last_lib_name_pointer(&mut b, &cfg) {
                    push_tags(&mut tags, &["expect:*/WriteDSODebugStreamFailed", "affects:dso", "linkmap-name-unreadable"]);
                }
            }
            _ => {}
        }
    }
    let _ = &clean;
    let mut sc = simple_dump_scenario("C11", seed, "c11-natural-failures", b, opts);
    sc.faults = faults;
    sc.events = events;
    if !file_copy.is_empty() {
        // pre-run with the other injections in place: the raw copy is the last open of that path
        let pre = crate::run::run(&sc, &crate::run::RunOpts { settle_rounds: 0, ..Default::default() });
        for (path, exp, aff, e) in file_copy {
            if let Some(nth) = last_open_index(&pre, &path) {
                let ok_pre = pre.dumps.first().map(|d| d.result.is_ok()).unwrap_or(false);
                if ok_pre {
                    sc.faults.push(FaultRule { trig: Trigger { kind: CallKind::Open, nth, path: Some(path.clone()) }, effect: Effect::Errno(e), times: 1, exotic: false });
                    push_tags(&mut tags, &[exp, aff, "file-copy"]);
                }
            }
        }
    }
    sc.tags = tags;
    sc
}

fn random_blob(r: &mut Rng) -> Vec<u8> {
    match r.below(6) {
        0 => Vec::new(),
        1 => b"noterminator".to_vec(),
        2 => {
            let n = r.range(1, 20);
            let mut v = Vec::new();
            for i in 0..n {
                v.extend_from_slice(format!("ARG{}=", i).as_bytes());
                let len = r.below(40) as usize;
                v.extend_from_slice(&r.bytes(len).iter().map(|b| if *b == 0 { 1 } else { *b }).collect::<Vec<u8>>());
                v.push(0);
            }
            v
        }
        3 => r.bytes(100 * 1024),
        4 => vec![0u8; r.range(1, 9) as usize],
        _ => b"/usr/bin/app\0-x\0".to_vec(),
    }
}

fn gen_c18(r: &mut Rng, seed: u64) -> Scenario {
    let n = *r.pick(&[1usize, 2, 3, 6]);
    let mut cfg = plain_cfg(n, r.below(13) as usize);
    cfg.nfds = 0;
    cfg.alt_chain = r.chance(1, 3) && cfg.nlibs > 0;
    cfg.names_at_end = r.chance(1, 3);
    cfg.link_map = r.chance(9, 10);
    let mut b = build_world(r, &cfg);
    let mut tags = vec![format!("libs{}", cfg.nlibs.min(3))];
    if cfg.names_at_end {
        tags.push("names-at-mapping-end".into());
    }
    if r.chance(1, 10) && crate::gen::spoil_first_lib_name(&mut b, &cfg) {
        tags.push("linkmap-name-not-utf8".into());
    }
    if r.chance(1, 12) && crate::gen::spoil_last_lib_name_pointer(&mut b, &cfg) {
        tags.push("linkmap-name-unreadable".into());
    }
    let mut opts = Opts { blamed: tid_of(r.below(n as u64) as usize), ..Default::default() };
    if n > 1 && opts.blamed != PID && r.chance(1, 6) {
        // the initial thread has exited (pthread_exit in main); its /proc files are those of a zombie
        b.world.threads[0].zombie = true;
        tags.push("zombie-leader".into());
    }
    b.world.cmdline = B(random_blob(r));
    b.world.environ = B(random_blob(r));
    if r.coin() {
        let mut l = b.world.limits.0.clone();
        l.extend_from_slice(format!("Max extra {:>20} {:>20} things\n", r.below(1 << 40), "unlimited").as_bytes());
        b.world.limits = B(l);
    }
    // extra auxv keys
    for _ in 0..r.below(5) {
        let at = r.below(b.world.auxv.len() as u64) as usize;
        b.world.auxv.insert(at, (*r.pick(&[11u64, 12, 13, 14, 16, 17, 25, 26, 31, 51]), r.next()));
    }
    // fds
    let nfds = if r.chance(1, 6) { 0 } else { r.range(1, 40) };
    let mut fdn = 0u32;
    for i in 0..nfds {
        fdn += 1 + r.below(3) as u32;
        let (target, mode): (Vec<u8>, u32) = match r.below(8) {
            0 => (b"/dev/pts/0".to_vec(), 0o020620),
            1 => (format!("/var/log/app-{}.log", i).into_bytes(), 0o100644),
            2 => (format!("/tmp/gone-{} (deleted)", i).into_bytes(), 0o100600),
            3 => (format!("pipe:[{}]", 30000 + i).into_bytes(), 0o010600),
            4 => (format!("socket:[{}]", 40000 + i).into_bytes(), 0o140777),
            5 => (b"anon_inode:[eventpoll]".to_vec(), 0o100600),
            6 => {
                let mut p = b"/data/caf\xe9/".to_vec();
                p.extend_from_slice(&[0xff, 0xfe, b'x']);
                (p, 0o100644)
            }
            _ if r.chance(1, 4) => {
                // link targets near the longest path the kernel hands out
                let want = *r.pick(&[255usize, 256, 257, 1023, 4095]);
                let mut p = format!("/very/long/{}/", i).into_bytes();
                while p.len() < want {
                    p.push(b'a' + (p.len() % 26) as u8);
                }
                (p, 0o100644)
            }
            _ if r.coin() => (format!("/srv/\u{1F4C4}-{}-\u{1F600}.txt", i).into_bytes(), 0o100644),
            _ => (format!("/srv/ünï/{}", i).into_bytes(), 0o040755),
        };
        if r.chance(1, 5) && target.starts_with(b"/") {
            // the path in the link text exists, but is another object than the one the descriptor holds
            let other_mode = if mode & 0o170000 == 0o040000 { 0o100644 } else { 0o040755 };
            if !b.world.files.iter().any(|f| f.path.0 == target) {
                b.world.files.push(FileSpec { path: B(target.clone()), content: B(Vec::new()), mode: other_mode });
                push_tags(&mut tags, &["fd-path-shadowed"]);
            }
        }
        // a descriptor the kernel cannot describe completely: the link text is longer than a path may be
        // (readlink fails with ENAMETOOLONG), or the object behind it is gone (a directory of an exited
        // process, a dead FUSE server: stat fails)
        let (stat_fails, link_fails) = match r.below(14) {
            0 => (true, false),
            1 => (false, true),
            _ => (false, false),
        };
        if stat_fails || link_fails {
            push_tags(&mut tags, &["fd-not-describable"]);
        }
        b.world.fds.push(FdSpec { fd: fdn, target: B(target), mode, stat_fails, link_fails });
    }
    if nfds > 0 && r.chance(1, 4) {
        for (k, n) in [1_000_000u32, 2_147_483_647, 4_294_967_295].iter().enumerate() {
            if r.coin() {
                b.world.fds.push(FdSpec { fd: *n, target: B::s(&format!("/tmp/high-fd-{}", k)), mode: 0o100600, stat_fails: false, link_fails: false });
            }
        }
        tags.push("huge-fd-numbers".into());
    }
    if r.chance(1, 4) {
        // address-space reservations of runtimes: far larger than 4 GiB, never touched
        let start = 0x6800_0000_0000u64;
        let len = *r.pick(&[1u64 << 32, (1u64 << 32) + 0x1000, 1u64 << 36, 1u64 << 40]);
        b.world.regions.push(RegionSpec { start, len, perms: "---p".into(), offset: 0, inode: 0, name: B(Vec::new()), deleted: false, content: Content::Zero });
        b.world.regions.sort_by_key(|x| x.start);
        tags.push("huge-reservation".into());
    }
    tags.push(format!("fds{}", match nfds { 0 => "0", 1..=5 => "1-5", _ => "6-40" }));
    let mut events = Vec::new();
    if nfds > 2 && r.chance(1, 4) {
        let victim = b.world.fds[r.below(nfds) as usize].fd;
        events.push(Event { trig: Trigger { kind: CallKind::Readdir, nth: r.below(nfds + 2) as u32, path: Some("/fd".into()) }, what: EventKind::CloseFd { fd: victim } });
        tags.push("fd-vanishes".into());
    }
    // a few shared mappings (only the memory-info list looks at the flag)
    for i in 0..r.below(3) {
        let start = b.add_anon(0x2000, if r.coin() { "rw-s" } else { "r--s" }, 0, 2);
        let reg = b.world.regions.iter_mut().find(|x| x.start == start).unwrap();
        reg.name = B::s(&format!("/run/shm/seg{}", i));
        reg.inode = 7000 + i;
        reg.content = Content::Zero;
        tags.push("shared-map".into());
    }
    for p in ["-w-p", "--xp", "rwxp", "-wxp"] {
        if r.chance(1, 6) {
            b.add_anon(0x1000, p, r.next(), 1);
        }
    }
    // cpu description
    let nproc = *r.pick(&[1u64, 2, 4, 16, 64, 255]);
    let family = r.range(1, 25);
    let model = r.range(0, 255);
    let stepping = r.range(0, 15);
    let vendor = *r.pick(&["GenuineIntel", "AuthenticAMD", "HygonGenuine", "Short", "MuchLongerThanTwelve"]);
    let mut text = String::new();
    let order = r.below(3);
    // some processors offline: they are missing from the list, the others keep their ids
    let mut offline: Vec<u64> = Vec::new();
    if nproc >= 4 && r.chance(1, 4) {
        for _ in 0..r.range(1, 3) {
            offline.push(*r.pick(&[1u64, nproc / 2, nproc - 2, nproc - 1]));
        }
        tags.push("cpus-offline".into());
    }
    for c in (0..nproc).filter(|c| !offline.contains(c)) {
        let mut lines = vec![
            format!("processor\t: {}", c),
            format!("vendor_id\t: {}", vendor),
            format!("cpu family\t: {}", family),
            format!("model\t\t: {}", model),
            "model name\t: Sim(R) CPU @ 2.00GHz: fast".to_string(),
            format!("stepping\t: {}", stepping),
            "microcode\t: 0x1".to_string(),
            "power management:".to_string(),
        ];
        if order == 1 {
            lines.swap(2, 5);
        } else if order == 2 {
            lines.swap(1, 3);
        }
        for l in lines {
            text.push_str(&l);
            text.push('\n');
        }
        text.push('\n');
    }
    b.world.cpuinfo = Some(B(text.into_bytes()));
    tags.push(format!("cpu:{},{},{},{},{}", nproc, family, model, stepping, vendor));
    if r.chance(1, 4) {
        b.world.uname = vec!["Linux".into(), format!("{}.{}.0-{}-generic", r.range(3, 6), r.below(20), r.below(200)), format!("#{}~22.04 SMP PREEMPT_DYNAMIC", r.below(99)), "x86_64".into()];
    }
    // direct auxv variants
    let exe = &b.modules[0];
    match r.below(6) {
        0 => {
            opts.direct_auxv = Some(vec![exe.image.phnum, exe.base + exe.image.phoff, b.vdso_base, exe.base + exe.image.entry_off]);
            tags.push("direct-same".into());
        }
        1 => {
            opts.direct_auxv = Some(vec![0, 0, 0, 0]);
            tags.push("direct-all-unset".into());
        }
        2 => {
            opts.direct_auxv = Some(vec![exe.image.phnum, 0, 0, exe.base + exe.image.entry_off]);
            tags.push("direct-partial".into());
        }
        3 | 4 if cfg.alt_chain => {
            let lib = &b.modules[1];
            opts.direct_auxv = Some(vec![lib.image.phnum, lib.base + lib.image.phoff, if r.coin() { b.vdso_base } else { 0 }, 0]);
            tags.push("direct-disagrees".into());
        }
        _ => {}
    }
    let mut sc = simple_dump_scenario("C18", seed, "c18-streams", b, opts);
    reader_knob(r, &mut sc.faults, &mut tags);
    sc.events = events;
    if r.chance(1, 3) {
        sc.sched.read_chunk = *r.pick(&[1u64, 7, 64, 1000]);
        tags.push("shortreads".into());
    }
    sc.tags = tags;
    sc
}

const BOUNDARY: [u64; 7] = [0, 1, 0xfff, 0x1000, 1 << 31, 1 << 63, u64::MAX];

fn corrupt(r: &mut Rng, img: &mut [u8], spec_img: &crate::elfgen::ElfImage) -> String {
    // (offset, width, label)
    let mut fields: Vec<(usize, usize, String)> = vec![
        (4, 1, "ei_class".into()),
        (5, 1, "ei_data".into()),
        (16, 2, "e_type".into()),
        (32, 8, "e_phoff".into()),
        (40, 8, "e_shoff".into()),
        (54, 2, "e_phentsize".into()),
        (56, 2, "e_phnum".into()),
        (58, 2, "e_shentsize".into()),
        (60, 2, "e_shnum".into()),
        (62, 2, "e_shstrndx".into()),
    ];
    for i in 0..spec_img.phnum as usize {
        let o = spec_img.phoff as usize + i * 56;
        for (fo, w, n) in [(0, 4, "p_type"), (8, 8, "p_offset"), (16, 8, "p_vaddr"), (32, 8, "p_filesz"), (40, 8, "p_memsz"), (48, 8, "p_align")] {
            fields.push((o + fo, w, format!("ph.{}", n)));
        }
    }
    let shoff = u64::from_le_bytes(img[40..48].try_into().unwrap()) as usize;
    let shnum = u16::from_le_bytes(img[60..62].try_into().unwrap()) as usize;
    if shoff != 0 && shoff + shnum * 64 <= img.len() {
        for i in 0..shnum {
            let o = shoff + i * 64;
            for (fo, w, n) in [(0, 4, "sh_name"), (4, 4, "sh_type"), (8, 8, "sh_flags"), (16, 8, "sh_addr"), (24, 8, "sh_offset"), (32, 8, "sh_size"), (40, 4, "sh_link"), (48, 8, "sh_addralign")] {
                fields.push((o + fo, w, format!("sh.{}", n)));
            }
        }
    }
    // note header and dynamic entries
    fields.push((0x200, 4, "note.namesz".into()));
    fields.push((0x204, 4, "note.descsz".into()));
    fields.push((0x208, 4, "note.type".into()));
    for i in 0..(spec_img.dyn_len / 16) as usize {
        fields.push((spec_img.dyn_off as usize + i * 16, 8, "dyn.d_tag".into()));
        fields.push((spec_img.dyn_off as usize + i * 16 + 8, 8, "dyn.d_val".into()));
    }
    let (off, width, label) = r.pick(&fields).clone();
    let size = img.len() as u64;
    let val = match r.below(10) {
        0 => size - 1,
        1 => size,
        2 => size + 1,
        _ => *r.pick(&BOUNDARY),
    };
    let bytes = val.to_le_bytes();
    if off + width <= img.len() {
        img[off..off + width].copy_from_slice(&bytes[..width]);
    }
    label
}

/// The text of a mapped file made inaccessible to the target itself from its second page on
/// (`mprotect(PROT_NONE)`; the pages stay where they are): a read that starts in the first page and
/// runs on comes back short from `process_vm_readv` and has to be completed another way.
fn text_tail_inaccessible(regions: &mut Vec<RegionSpec>, name: &[u8]) -> bool {
    let Some(i) = regions.iter().position(|g| g.name.0 == name && g.perms == "r-xp" && g.len >= 0x2000 && matches!(g.content, Content::Bytes(_))) else {
        return false;
    };
    let mut tail = regions[i].clone();
    let Content::Bytes(B(all)) = &regions[i].content else {
        return false;
    };
    let (head_bytes, tail_bytes) = (all[..0x1000].to_vec(), all[0x1000..].to_vec());
    regions[i].len = 0x1000;
    regions[i].content = Content::Bytes(B(head_bytes));
    tail.start += 0x1000;
    tail.len -= 0x1000;
    tail.offset += 0x1000;
    tail.perms = "---p".into();
    tail.content = Content::Bytes(B(tail_bytes));
    regions.insert(i + 1, tail);
    true
}

fn gen_c14(r: &mut Rng, seed: u64) -> Scenario {
    let mut b = build_world(r, &plain_cfg(1, 0));
    b.world.fds.clear();
    let mut spec = lib_spec(r, true, 0);
    let mut tags = Vec::new();
    // a non-position-independent program image (ET_EXEC): every virtual address in it is absolute
    // (link base 0x400000) and differs from the offset in the file; such images carry no SONAME
    let non_pie = r.chance(1, 6);
    if non_pie {
        spec.link_base = 0x40_0000;
        spec.soname = None;
        tags.push("non-pie".into());
    }
    if r.chance(1, 4) && spec.sections {
        spec.sections_at_end = true;
        tags.push("sections-unmapped".to_string());
    }
    if spec.build_id.is_some() && spec.note_in_phdr {
        tags.push("note-in-segment".into());
    }
    tags.push(format!("id{}", match &spec.build_id { None => "none".to_string(), Some(i) => i.len().to_string() }));
    tags.push(format!("so{}", spec.soname.is_some() as u8));
    tags.push(format!("sec{}", spec.sections as u8));
    // a build-id note stamped on afterwards (objcopy --add-section): no PT_NOTE, and the section's name
    // is the last string of the section name table
    if spec.build_id.is_some() && spec.sections && !spec.sections_at_end && r.chance(1, 6) {
        spec.note_in_phdr = false;
        spec.note_name_last = true;
        tags.retain(|t| t != "note-in-segment");
        tags.push("note-name-last".into());
    }
    // processed by a post-link tool: note and string table in an appended segment whose virtual
    // address differs from its file offset
    if !non_pie && !spec.sections_at_end && r.chance(1, 5) {
        spec.moved_tables = true;
        tags.push("tables-moved".into());
    }
    // a library linked at a non-zero base address (-Ttext-segment / --image-base): SONAME kept
    let based = !non_pie && !spec.moved_tables && r.chance(1, 8);
    if based {
        spec.link_base = 0x20_0000;
        spec.force_dyn = true;
        tags.push("nonzero-link-base".into());
    }
    if spec.small_align {
        tags.push("first-segment-unaligned".into());
    }
    let img = crate::elfgen::build(&spec);
    let base = if non_pie { 0x40_0000 } else { LIB_BASE + 0x4000_0000 };
    let path = "/opt/c14/libtarget.so.1.2.3";
    let mut file = img.file.clone();
    let mut well_formed = true;
    let mode = r.below(10);
    match mode {
        0 | 1 | 2 => {
            let l = corrupt(r, &mut file, &img);
            well_formed = false;
            tags.push(format!("corrupt:{}", l));
        }
        3 => {
            let n = r.range(0, 3000) as usize;
            file = r.bytes(n);
            if n >= 4 && r.coin() {
                file[0..4].copy_from_slice(b"\x7fELF");
            }
            well_formed = false;
            tags.push("random-bytes".into());
        }
        4 => {
            file.truncate(*r.pick(&[0usize, 3, 16, 63, 64, 100, 0x200]));
            well_formed = false;
            tags.push("truncated".into());
        }
        _ => {}
    }
    let mut mem = file.clone();
    mem.resize((img.mapped_len as usize).max(mem.len()), 0);
    if well_formed && r.coin() {
        if let Some(o) = img.dt_strtab_val_off {
            let vaddr = base + img.dynstr_vaddr;
            mem[o as usize..o as usize + 8].copy_from_slice(&vaddr.to_le_bytes());
            tags.push("relocated".into());
        }
    }
    let mut segs: Vec<(u64, u64, u64, &str)> = vec![(0u64, 0u64, 0x1000u64, "r--p"), (img.text_off, img.text_off, img.text_len, "r-xp"), (img.data_off, img.data_vaddr, 0x1000, "rw-p")];
    if let Some((mo, mv, ml)) = img.moved {
        segs.push((mo, mv, ml, "r--p"));
    }
    for (off, vaddr, len, perms) in segs {
        let bytes: Vec<u8> = (0..len as usize).map(|k| mem.get(off as usize + k).copied().unwrap_or(0)).collect();
        b.world.regions.push(RegionSpec {
            start: base + vaddr,
            len,
            perms: perms.into(),
            offset: off,
            inode: 4242,
            name: B::s(path),
            deleted: false,
            content: Content::Bytes(B(bytes)),
        });
    }
    b.world.regions.sort_by_key(|x| x.start);
    if r.chance(1, 5) && text_tail_inaccessible(&mut b.world.regions, path.as_bytes()) {
        tags.push("text-tail-inaccessible".into());
    }
    let mut use_path = B::s(path);
    if r.chance(1, 12) {
        use_path = B::s("/opt/c14/missing.so");
        tags.push("file-missing".into());
    } else {
        b.world.files.push(FileSpec { path: B::s(path), content: B(file), mode: 0o100644 });
    }
    let mut faults = Vec::new();
    if r.chance(1, 4) {
        let nth = r.below(12) as u32;
        let (kind, eff, name) = match r.below(5) {
            0 => (CallKind::Vmreadv, Effect::Errno(5), "vm-eio"),
            1 => (CallKind::Vmreadv, Effect::Short(*r.pick(&[1u64, 8, 63, 64])), "vm-short"),
            2 => (CallKind::Vmreadv, Effect::Errno(14), "vm-efault"),
            3 => (CallKind::Mmap, Effect::Errno(12), "mmap-enomem"),
            _ => (CallKind::Open, Effect::Errno(24), "open-emfile"),
        };
        let nth = if kind == CallKind::Vmreadv { nth } else { 0 };
        faults.push(FaultRule { trig: Trigger { kind, nth, path: None }, effect: eff, times: 1, exotic: false });
        tags.push(format!("fault:{}", name));
    }
    Scenario {
        prop: "C14".into(),
        seed,
        profile: "c14-elf-identification".into(),
        world: b.world,
        workload: Workload::ElfId(ElfIdPlan { base, path: use_path, well_formed, want_build_id: spec.build_id.clone().map(B), want_soname: spec.soname.clone() }),
        events: Vec::new(),
        faults,
        sched: Sched::default(),
        tags,
    }
}

fn gen_c08(r: &mut Rng, seed: u64) -> Scenario {
    let n = *r.pick(&[1usize, 2, 4]);
    let mut cfg = plain_cfg(n, r.range(1, 12) as usize);
    cfg.lib_variety = true;
    cfg.nfds = 0;
    cfg.lib_gaps = r.coin();
    let mut b = build_world(r, &cfg);
    let mut tags = vec![format!("libs{}", cfg.nlibs.min(4))];
    if b.modules.iter().any(|m| m.image.data_vaddr > m.image.data_off) {
        tags.push("reserved-gap".into());
    }
    let mut opts = Opts { blamed: PID, ..Default::default() };
    // odd names / deleted files for some libraries
    let nmods = b.modules.len();
    for mi in 1..nmods {
        let old = b.modules[mi].path.clone();
        let newname: Option<String> = match r.below(10) {
            0 => Some(format!("/usr/lib/with space/lib x{}.so.{}", mi, r.below(5))),
            1 => Some(format!("/usr/lib/ünï-{}/libé{}.so", mi, mi)),
            2 => Some(if r.coin() { format!("/usr/lib/libv{}.so.1.2.3rc{}", mi, r.below(9)) } else { format!("/usr/lib/libv{}.so.6.0.0.{}beta{}", mi, r.below(3), r.below(9)) }),
            3 => Some(format!("/opt/app/plugin{}.bin", mi)),
            _ => None,
        };
        if let Some(nn) = newname {
            for reg in b.world.regions.iter_mut() {
                if reg.name.0 == old.as_bytes() {
                    reg.name = B::s(&nn);
                }
            }
            for f in b.world.files.iter_mut() {
                if f.path.0 == old.as_bytes() {
                    f.path = B::s(&nn);
                }
            }
            b.modules[mi].path = nn;
            push_tags(&mut tags, &["odd-names"]);
        }
        if r.chance(1, 8) {
            let p = b.modules[mi].path.clone();
            for reg in b.world.regions.iter_mut() {
                if reg.name.0 == p.as_bytes() {
                    reg.deleted = true;
                }
            }
            b.world.files.retain(|f| f.path.0 != p.as_bytes());
            push_tags(&mut tags, &["deleted"]);
        }
    }
    // a library whose parts before the loader's reserved gap are not executable (an image mapped for
    // reading; text made non-executable): the gap is then only "between two parts of" the file, never
    // "directly after an executable mapping".
    if r.chance(1, 3) {
        for mi in 1..nmods {
            let (base, img_gap, data_off) = (b.modules[mi].base, b.modules[mi].image.data_vaddr > b.modules[mi].image.data_off, b.modules[mi].image.data_off);
            if !img_gap || !r.coin() {
                continue;
            }
            let p = b.modules[mi].path.clone();
            for reg in b.world.regions.iter_mut() {
                if reg.name.0 == p.as_bytes() && reg.start >= base && reg.start < base + data_off && reg.perms == "r-xp" {
                    reg.perms = "r--p".into();
                }
            }
            push_tags(&mut tags, &["gap-after-non-exec"]);
            break;
        }
    }
    // two libraries loaded from memory files of one name (`memfd_create("plugin")` twice, each opened
    // through /proc/self/fd): both show as "/memfd:plugin (deleted)", the loader puts them back to back
    if r.chance(1, 8) {
        let s1 = crate::gen::lib_spec(r, false, 60);
        let s2 = crate::gen::lib_spec(r, false, 61);
        let (i1, i2) = (crate::elfgen::build(&s1), crate::elfgen::build(&s2));
        let base1 = LIB_BASE + 0x7a00_0000;
        let base2 = base1 + i1.mapped_len;
        if !b.world.regions.iter().any(|g| g.start < base2 + i2.mapped_len + 0x1000 && base1 - 0x1000 < g.end()) {
            let name = "/memfd:plugin";
            for (img, base, ino) in [(&i1, base1, 10791u64), (&i2, base2, 10790u64)] {
                let mut mem = img.file.clone();
                if let Some(o) = img.dt_strtab_val_off {
                    let vaddr = base + img.dynstr_vaddr;
                    mem[o as usize..o as usize + 8].copy_from_slice(&vaddr.to_le_bytes());
                }
                crate::gen::elf_regions(name, base, img, ino, &mem, &mut b.world.regions);
            }
            for g in b.world.regions.iter_mut().filter(|g| g.inode == 10791 || g.inode == 10790) {
                g.deleted = true;
            }
            b.world.regions.sort_by_key(|g| g.start);
            push_tags(&mut tags, &["same-name-different-files-adjacent"]);
        }
    }
    if r.chance(1, 4) {
        for mi in 1..nmods {
            let p = b.modules[mi].path.clone();
            if r.coin() && text_tail_inaccessible(&mut b.world.regions, p.as_bytes()) {
                push_tags(&mut tags, &["text-tail-inaccessible"]);
                break;
            }
        }
    }
    // a replaced library: the old file (now deleted) is still mapped, none of its parts executable, an
    // inaccessible page follows it, and the new file of the same path is mapped right behind that
    if r.chance(1, 8) {
        for mi in 1..nmods {
            let (base, p) = (b.modules[mi].base, b.modules[mi].path.clone());
            let live = b.world.files.iter().any(|f| f.path.0 == p.as_bytes()) && b.world.regions.iter().any(|g| g.start == base && g.name.0 == p.as_bytes() && !g.deleted);
            let old = crate::elfgen::build(&crate::gen::lib_spec(r, false, 70 + mi));
            let obase = base - 0x1000 - old.mapped_len;
            if !live || b.world.regions.iter().any(|g| g.start < base && obase - 0x1000 < g.end()) {
                continue;
            }
            let mem = old.file.clone();
            crate::gen::elf_regions(&p, obase, &old, 4242, &mem, &mut b.world.regions);
            for g in b.world.regions.iter_mut().filter(|g| g.inode == 4242) {
                g.deleted = true;
                if g.perms == "r-xp" {
                    g.perms = "r--p".into();
                }
            }
            b.world.regions.push(RegionSpec { start: base - 0x1000, len: 0x1000, perms: "---p".into(), offset: 0, inode: 0, name: B(Vec::new()), deleted: false, content: Content::Zero });
            b.world.regions.sort_by_key(|g| g.start);
            push_tags(&mut tags, &["old-image-gap-replacement"]);
            break;
        }
    }
    // the same file mapped a second time elsewhere (two separate groups of the same name)
    if b.modules.len() > 1 && r.chance(1, 5) {
        let m = &b.modules[1 + r.below(b.modules.len() as u64 - 1) as usize];
        if m.image.data_vaddr == m.image.data_off {
            let base2 = LIB_BASE + 0x7800_0000;
            let path = m.path.clone();
            let img = m.image.clone();
            let mut mem = img.file.clone();
            if let Some(o) = img.dt_strtab_val_off {
                let vaddr = base2 + img.dynstr_vaddr;
                mem[o as usize..o as usize + 8].copy_from_slice(&vaddr.to_le_bytes());
            }
            elf_regions(&path, base2, &img, 7171, &mem, &mut b.world.regions);
            push_tags(&mut tags, &["mapped-twice"]);
        }
    }
    // the loader's reserved gap directly after a library (nothing of the file follows it)
    for mi in 1..b.modules.len() {
        if r.chance(1, 6) {
            let end = b.modules[mi].base + b.modules[mi].image.mapped_len;
            // now and then an enormous inaccessible reservation (a runtime reserving address space right
            // behind a library): the module's extent then exceeds what the 32-bit size field can hold
            let len = r.range(1, 3) * 0x1000;
            if !b.world.regions.iter().any(|g| g.start < end + len + 0x1000 && end < g.end()) {
                b.world.regions.push(RegionSpec { start: end, len, perms: "---p".into(), offset: 0, inode: 0, name: B(Vec::new()), deleted: false, content: Content::Zero });
                push_tags(&mut tags, &["trailing-reserved-gap"]);
            }
        }
    }
    // a library whose section table is not mapped and whose note is only in a section
    if r.chance(1, 3) {
        let spec = crate::elfgen::ElfSpec { build_id: Some(r.bytes(20)), note_in_phdr: false, soname: Some("libfileonly.so.2".into()), sections: true, text_pages: 1, text_seed: r.next(), dt_debug: false, dyn_pad: 0, with_pt_phdr: false, sections_at_end: true, rodata_before_text: false, data_gap_pages: 0, link_base: 0, text_sec_skip: 0, moved_tables: false, force_dyn: false, note_name_last: false, small_align: false };
        let img = crate::elfgen::build(&spec);
        let base = LIB_BASE + 0x5000_0000;
        let path = "/usr/lib/libfileonly.so.2.0";
        let mut mem = img.file.clone();
        if let Some(o) = img.dt_strtab_val_off {
            let vaddr = base + img.dynstr_vaddr;
            mem[o as usize..o as usize + 8].copy_from_slice(&vaddr.to_le_bytes());
        }
        for (off, len, perms) in [(0u64, 0x1000u64, "r--p"), (img.text_off, img.text_len, "r-xp"), (img.data_off, 0x1000, "rw-p")] {
            b.world.regions.push(RegionSpec { start: base + off, len, perms: perms.into(), offset: off, inode: 5151, name: B::s(path), deleted: false, content: Content::Bytes(B(mem[off as usize..(off + len) as usize].to_vec())) });
        }
        b.world.files.push(FileSpec { path: B::s(path), content: B(img.file.clone()), mode: 0o100644 });
        push_tags(&mut tags, &["id-only-in-file"]);
    }
    // a relocatable object (`ld -r --build-id`, the way a kernel module is made) mapped whole as plain
    // data by a tool: no program headers, every section address is 0, the note is found through the
    // section table at its file offset only. It has no loaded form; what an ELF reader finds in the file
    // is what identifies it.
    if r.chance(1, 6) {
        let spec = crate::elfgen::ElfSpec { build_id: Some(r.bytes(20)), note_in_phdr: false, soname: None, sections: true, text_pages: 1, text_seed: r.next(), dt_debug: false, dyn_pad: 0, with_pt_phdr: false, sections_at_end: false, rodata_before_text: false, data_gap_pages: 0, link_base: 0, text_sec_skip: 0, moved_tables: false, force_dyn: false, note_name_last: false, small_align: false };
        let img = crate::elfgen::build(&spec);
        let mut f = img.file.clone();
        f[16..18].copy_from_slice(&1u16.to_le_bytes()); // ET_REL
        f[24..32].copy_from_slice(&0u64.to_le_bytes()); // no entry point
        f[32..40].copy_from_slice(&0u64.to_le_bytes()); // e_phoff
        f[54..56].copy_from_slice(&0u16.to_le_bytes()); // e_phentsize
        f[56..58].copy_from_slice(&0u16.to_le_bytes()); // e_phnum
        let shoff = u64::from_le_bytes(f[40..48].try_into().unwrap()) as usize;
        let shnum = u16::from_le_bytes(f[60..62].try_into().unwrap()) as usize;
        for i in 0..shnum {
            let o = shoff + i * 64 + 16;
            f[o..o + 8].copy_from_slice(&0u64.to_le_bytes()); // sh_addr
        }
        let base = LIB_BASE + 0x6800_0000;
        let path = "/opt/tools/module.ko";
        let len = (f.len() as u64 + 0xfff) & !0xfff;
        if !b.world.regions.iter().any(|g| g.start < base + len + 0x1000 && base - 0x1000 < g.end()) {
            let mut mem = f.clone();
            mem.resize(len as usize, 0);
            b.world.regions.push(RegionSpec { start: base, len, perms: "r--p".into(), offset: 0, inode: 8383, name: B::s(path), deleted: false, content: Content::Bytes(B(mem)) });
            b.world.regions.sort_by_key(|g| g.start);
            b.world.files.push(FileSpec { path: B::s(path), content: B(f), mode: 0o100644 });
            push_tags(&mut tags, &["relocatable-object-mapped-as-data"]);
        }
    }
    // a library embedded in an archive: executable mapping from a non-zero file offset
    if r.chance(1, 3) {
        let spec = crate::elfgen::ElfSpec { build_id: Some(r.bytes(20)), note_in_phdr: true, soname: Some("libembedded.so".into()), sections: r.coin(), text_pages: 1, text_seed: r.next(), dt_debug: false, dyn_pad: 0, with_pt_phdr: false, sections_at_end: false, rodata_before_text: false, data_gap_pages: 0, link_base: 0, text_sec_skip: 0, moved_tables: false, force_dyn: false, note_name_last: false, small_align: false };
        let img = crate::elfgen::build(&spec);
        let base = LIB_BASE + 0x6000_0000;
        let path = "/data/app/base.apk";
        let arch_off = 0x3000u64;
        let mut filec = r.bytes(arch_off as usize);
        filec.extend_from_slice(&img.file);
        for (off, len, perms) in [(0u64, 0x1000u64, "r--p"), (img.text_off, img.text_len, "r-xp"), (img.data_off, 0x1000, "rw-p")] {
            b.world.regions.push(RegionSpec { start: base + off, len, perms: perms.into(), offset: arch_off + off, inode: 6161, name: B::s(path), deleted: false, content: Content::Bytes(B(img.file[off as usize..(off + len) as usize].to_vec())) });
        }
        b.world.files.push(FileSpec { path: B::s(path), content: B(filec), mode: 0o100644 });
        push_tags(&mut tags, &["archive-offset"]);
    }
    // a statically linked, non-position-independent program image: every virtual address in it is
    // absolute (link base 0x400000) and differs from the file offset
    if r.chance(1, 3) {
        let spec = crate::elfgen::ElfSpec { build_id: Some(r.bytes(20)), note_in_phdr: true, soname: None, sections: r.coin(), text_pages: 1, text_seed: r.next(), dt_debug: false, dyn_pad: 0, with_pt_phdr: true, sections_at_end: false, rodata_before_text: false, data_gap_pages: 0, link_base: 0x40_0000, text_sec_skip: 0, moved_tables: false, force_dyn: r.coin(), note_name_last: false, small_align: false };
        let img = crate::elfgen::build(&spec);
        let base = 0x40_0000u64;
        let path = "/opt/tools/static-helper";
        let gone = r.coin();
        for (off, len, perms) in [(0u64, 0x1000u64, "r--p"), (img.text_off, img.text_len, "r-xp"), (img.data_off, 0x1000, "rw-p")] {
            b.world.regions.push(RegionSpec { start: base + off, len, perms: perms.into(), offset: off, inode: 2323, name: B::s(path), deleted: gone, content: Content::Bytes(B(img.file[off as usize..(off + len) as usize].to_vec())) });
        }
        if !gone {
            b.world.files.push(FileSpec { path: B::s(path), content: B(img.file.clone()), mode: 0o100755 });
        } else if r.coin() {
            // ... and its path now holds a different file, one that has a SONAME
            let other = crate::elfgen::build(&crate::gen::lib_spec(r, false, 80));
            b.world.files.push(FileSpec { path: B::s(path), content: B(other.file.clone()), mode: 0o100755 });
            push_tags(&mut tags, &["non-pie-deleted-and-replaced"]);
        }
        push_tags(&mut tags, &[if gone { "non-pie-deleted" } else { "non-pie" }]);
    }
    // a non-ELF file mapping and an all-zero build id
    if r.chance(1, 3) {
        let start = b.add_anon(0x3000, "r--p", r.next(), 1);
        let reg = b.world.regions.iter_mut().find(|x| x.start == start).unwrap();
        reg.name = B::s("/usr/share/fonts/sim.ttf");
        reg.inode = 8181;
        b.world.files.push(FileSpec { path: B::s("/usr/share/fonts/sim.ttf"), content: B(r.bytes(0x3000)), mode: 0o100644 });
        push_tags(&mut tags, &["non-elf"]);
    }
    if r.chance(1, 4) {
        let spec = crate::elfgen::ElfSpec { build_id: Some(vec![0u8; 20]), note_in_phdr: true, soname: None, sections: true, text_pages: 1, text_seed: 5, dt_debug: false, dyn_pad: 0, with_pt_phdr: false, sections_at_end: false, rodata_before_text: false, data_gap_pages: 0, link_base: 0, text_sec_skip: 0, moved_tables: false, force_dyn: false, note_name_last: false, small_align: false };
        let img = crate::elfgen::build(&spec);
        let base = LIB_BASE + 0x7000_0000;
        let path = "/usr/lib/libzeroid.so";
        for (off, len, perms) in [(0u64, 0x1000u64, "r--p"), (img.text_off, img.text_len, "r-xp"), (img.data_off, 0x1000, "rw-p")] {
            b.world.regions.push(RegionSpec { start: base + off, len, perms: perms.into(), offset: off, inode: 9191, name: B::s(path), deleted: false, content: Content::Bytes(B(img.file[off as usize..(off + len) as usize].to_vec())) });
        }
        b.world.files.push(FileSpec { path: B::s(path), content: B(img.file.clone()), mode: 0o100644 });
        push_tags(&mut tags, &["zero-id"]);
    }
    // entry point not in the lowest module: a library below the executable
    if r.chance(1, 3) {
        let spec = lib_spec(r, false, 99);
        let img = crate::elfgen::build(&spec);
        let base = 0x4000_0000u64;
        let path = "/usr/lib/liblow.so.0";
        for (off, len, perms) in [(0u64, 0x1000u64, "r--p"), (img.text_off, img.text_len, "r-xp"), (img.data_off, 0x1000, "rw-p")] {
            b.world.regions.push(RegionSpec { start: base + off, len, perms: perms.into(), offset: off, inode: 3131, name: B::s(path), deleted: false, content: Content::Bytes(B(img.file[off as usize..(off + len) as usize].to_vec())) });
        }
        b.world.files.push(FileSpec { path: B::s(path), content: B(img.file.clone()), mode: 0o100644 });
        push_tags(&mut tags, &["entry-not-lowest"]);
    }
    if r.chance(1, 3) {
        // non-executable mappings below everything else (the executable is then not the first line)
        for (i, (perms, named)) in [("rw-p", false), ("r--p", true)].iter().enumerate() {
            if r.coin() {
                let start = 0x1000_0000u64 + i as u64 * 0x10_0000;
                b.world.regions.push(RegionSpec { start, len: 0x2000, perms: (*perms).into(), offset: 0, inode: if *named { 4141 } else { 0 }, name: if *named { B::s("/usr/share/locale/sim.mo") } else { B(Vec::new()) }, deleted: false, content: Content::Pattern(r.next()) });
                push_tags(&mut tags, &["low-nonexec-mapping"]);
            }
        }
    }
    b.world.regions.sort_by_key(|x| x.start);
    // user mappings
    if r.chance(1, 3) {
        let nu = r.range(1, 3);
        for i in 0..nu {
            let m = &b.modules[r.below(b.modules.len() as u64) as usize];
            let (start, size, kind) = match r.below(3) {
                // (the caller may describe the main executable itself: its record then takes the first place)
                0 if m.base != EXE_BASE || i == 0 => (m.base, m.image.mapped_len, if m.base == EXE_BASE { "containing-executable" } else { "containing" }),
                1 if m.base != EXE_BASE => (m.base + 0x1000, m.image.mapped_len, "partial"),
                _ => (0x6100_0000_0000 + i * 0x100000, 0x4000, "disjoint"),
            };
            let idlen = r.pick_copy(&[16usize, 20]);
            // now and then the supplied name is a path that also exists where the writer runs (a library
            // with a SONAME that differs from its file name): the caller's name is still to be listed as given
            let local = if m.base != EXE_BASE && r.chance(1, 3) { Some(m.path.clone()) } else { None };
            if local.is_some() {
                push_tags(&mut tags, &["user-name-exists-locally"]);
            }
            let name = local.unwrap_or_else(|| format!("/user/supplied{}.so", i));
            opts.user_mappings.push(UserMapSpec { sysinfo_zeroed: r.coin(), start, size, offset: 0, perms: "r-xp".into(), name: Some(B::s(&name)), identifier: B(r.bytes(idlen)) });
            push_tags(&mut tags, &[&format!("user-{}", kind)]);
        }
    }
    if r.chance(1, 6) {
        sc_force_file_fallback(&mut tags);
    }
    if b.modules.len() > 1 && r.chance(1, 8) {
        // a plug-in that was replaced on disk and loaded again: the old image is still mapped (its file
        // shows as deleted), the new file of the same path got mapped directly below it
        let mi = 1 + r.below(b.modules.len() as u64 - 1) as usize;
        let (path, base) = (b.modules[mi].path.clone(), b.modules[mi].base);
        let spec2 = crate::gen::lib_spec(r, false, 90 + mi);
        let img2 = crate::elfgen::build(&spec2);
        let base2 = base - img2.mapped_len;
        let old_named = b.world.regions.iter().any(|g| g.name.0 == path.as_bytes() && g.start >= base && g.start < base + b.modules[mi].image.mapped_len);
        if old_named && !b.world.regions.iter().any(|g| g.start < base && base2 - 0x1000 < g.end()) {
            for g in b.world.regions.iter_mut() {
                if g.name.0 == path.as_bytes() && g.start >= base {
                    g.deleted = true;
                }
            }
            let mem2 = img2.file.clone();
            crate::gen::elf_regions(&path, base2, &img2, 9393, &mem2, &mut b.world.regions);
            b.world.files.retain(|f| f.path.0 != path.as_bytes());
            b.world.files.push(FileSpec { path: B::s(&path), content: B(img2.file.clone()), mode: 0o100644 });
            b.world.regions.sort_by_key(|g| g.start);
            push_tags(&mut tags, &["replaced-and-reloaded"]);
        }
    }
    if r.chance(1, 8) {
        // an enormous inaccessible reservation right behind a library (a runtime reserving address
        // space): the module's extent then exceeds what the 32-bit size field can hold. Placed last, where
        // the address space behind the library is free.
        let len = *r.pick(&[0xffff_f000u64, 1 << 32, 5 << 30]);
        b.world.regions.sort_by_key(|g| g.start);
        let cands: Vec<u64> = b
            .modules
            .iter()
            .skip(1)
            .map(|m| m.base + m.image.mapped_len)
            .filter(|end| b.world.regions.iter().any(|g| g.end() == *end && g.perms.as_bytes()[2] != b'x' || g.end() == *end) && !b.world.regions.iter().any(|g| g.start < end + len + 0x1000 && *end < g.end()))
            .collect();
        if !cands.is_empty() {
            let end = *r.pick(&cands);
            b.world.regions.push(RegionSpec { start: end, len, perms: "---p".into(), offset: 0, inode: 0, name: B(Vec::new()), deleted: false, content: Content::Zero });
            b.world.regions.sort_by_key(|g| g.start);
            push_tags(&mut tags, &["huge-reserved-gap"]);
        }
    }
    if r.chance(1, 12) {
        zombie_leader(r, &mut b, &mut opts, &mut tags);
    }
    let mut sc = simple_dump_scenario("C08", seed, "c08-modules", b, opts);
    sc.tags = tags;
    sc
}

fn sc_force_file_fallback(_tags: &mut Vec<String>) {}

const HANDLED_SIGNALS: [i32; 8] = [10, 12, 14, 1, 34, 35, 40, 64];

fn signal_trigger(r: &mut Rng, n: usize) -> (Trigger, &'static str) {
    let n = n as u64;
    match r.below(11) {
        0 => (Trigger { kind: CallKind::Kill, nth: 0, path: None }, "before-stop"),
        1 => (Trigger { kind: CallKind::Read, nth: r.below(4) as u32, path: Some("/stat".into()) }, "while-stopping"),
        2 => (Trigger { kind: CallKind::Readdir, nth: r.below(n + 2) as u32, path: Some("/task".into()) }, "enumeration"),
        3 => (Trigger { kind: CallKind::PtraceAttach, nth: r.below(n) as u32, path: None }, "at-attach"),
        4 => (Trigger { kind: CallKind::Waitpid, nth: r.below(n + 1) as u32, path: None }, "between-attach-and-wait"),
        5 => (Trigger { kind: CallKind::PtraceGetregset, nth: r.below(2 * n) as u32, path: None }, "while-suspended"),
        6 => (Trigger { kind: CallKind::Vmreadv, nth: r.below(20) as u32, path: None }, "while-capturing"),
        7 => (Trigger { kind: CallKind::DestWrite, nth: r.below(30) as u32, path: None }, "while-writing"),
        8 => (Trigger { kind: CallKind::PtraceDetach, nth: r.below(n) as u32, path: None }, "between-detaches"),
        9 => (Trigger { kind: CallKind::Kill, nth: 1, path: None }, "before-sigcont"),
        _ => (Trigger { kind: CallKind::PtraceCont, nth: 0, path: None }, "at-reinjection"),
    }
}

fn gen_c03(r: &mut Rng, seed: u64) -> Scenario {
    let n = match r.below(8) {
        0 => 1,
        1..=5 => r.range(2, 5) as usize,
        _ => r.range(6, 16) as usize,
    };
    let mut cfg = plain_cfg(n, 1);
    cfg.stack_pages_max = 3;
    let mut b = build_world(r, &cfg);
    let mut tags = vec![format!("n{}", if n == 1 { "1" } else if n <= 5 { "2-5" } else { "6-16" })];
    let mut opts = Opts { blamed: tid_of(r.below(n as u64) as usize), ..Default::default() };
    // a couple of busy threads
    if r.coin() {
        let words = b.add_anon(0x1000, "rw-p", r.next(), 1);
        for s in 0..r.range(1, 2) {
            let ti = r.below(n as u64) as usize;
            let tid = tid_of(ti);
            let (ss, sl) = stack_of(&b, tid);
            let t = &mut b.world.threads[ti];
            if t.program == Program::Parked {
                t.program = Program::Spinner { stack_slot: ss + sl - 64, app_word: words + s * 64 };
            }
        }
        tags.push("busy".into());
    }
    if r.chance(1, 8) && n > 1 {
        let ti = r.range(1, n as u64 - 1) as usize;
        b.world.threads[ti].foreign_tracer = true;
        tags.push("foreign-tracer".into());
    }
    if r.chance(1, 8) && n > 1 {
        let ti = r.range(1, n as u64 - 1) as usize;
        if tid_of(ti) != opts.blamed {
            b.world.threads[ti].regs[R_RSP] = 0;
            tags.push("sandbox-thread".into());
        }
    }
    if r.chance(1, 12) && n > 1 && opts.blamed != PID {
        b.world.threads[0].zombie = true;
        b.world.threads[0].program = Program::Parked;
        tags.push("zombie-leader".into());
    }
    if r.chance(1, 8) && n > 1 {
        // a thread in a long uninterruptible wait: it takes no signal (and so does not stop) before it wakes
        let ti = r.range(1, n as u64 - 1) as usize;
        if !b.world.threads[ti].zombie {
            b.world.threads[ti].blocked_until_ns = *r.pick(&[20_000_000u64, 400_000_000, 1_500_000_000, 4_000_000_000]);
            tags.push("thread-in-d-state".into());
        }
    }
    let mut faults = Vec::new();
    match r.below(8) {
        0 | 5 => {
            opts.failspots |= 1;
            tags.push("stop-failspot".into());
        }
        1 => {
            faults.push(FaultRule { trig: Trigger { kind: CallKind::Kill, nth: 0, path: None }, effect: Effect::Errno(1), times: 1, exotic: false });
            tags.push("stop-eperm".into());
        }
        2 | 6 => {
            for t in b.world.threads.iter_mut() {
                t.stop_latency_ns = 200_000_000 + r.below(200_000_000);
            }
            opts.stop_timeout_ms = Some(*r.pick(&[1u64, 5]));
            tags.push("stop-timeout".into());
        }
        3 => {
            for t in b.world.threads.iter_mut() {
                t.stop_latency_ns = r.below(2_000_000);
            }
            tags.push("stop-staggered".into());
        }
        _ => {}
    }
    let stop_fails = tags.iter().any(|t| t == "stop-failspot" || t == "stop-eperm" || t == "stop-timeout");
    let mut events = Vec::new();
    let nsig = match r.below(6) {
        0 => 0,
        1 | 2 | 3 => r.range(1, 2),
        _ => r.range(3, 5),
    };
    let mut phases: Vec<&'static str> = Vec::new();
    for i in 0..nsig {
        let (trig, phase) = signal_trigger(r, n);
        let mut signo = *r.pick(&HANDLED_SIGNALS);
        let id = 100 + i as u32;
        let job_control = r.chance(1, 12);
        if job_control {
            // job-control stop signals for which the target has installed handlers
            signo = *r.pick(&[20, 21, 22]);
            if !tags.contains(&"job-control-signal".to_string()) {
                tags.push("job-control-signal".into());
            }
        }
        let what = if !job_control && r.chance(1, 4) { EventKind::SignalProcess { signo, id } } else { EventKind::SignalThread { tid: tid_of(r.below(n as u64) as usize), signo, id } };
        events.push(Event { trig, what });
        if !phases.contains(&phase) {
            phases.push(phase);
        }
    }
    if nsig > 0 {
        phases.sort();
        tags.push(format!("signals:{}", phases.join("/")));
    }
    if r.chance(1, 10) {
        // a SIGCONT from outside (job control, a supervisor) at some point of the request
        let (trig, phase) = signal_trigger(r, n);
        events.push(Event { trig, what: EventKind::ContinueProcess });
        tags.push(format!("external-sigcont:{}", phase));
    }
    if stop_fails && n > 1 && r.coin() {
        for _ in 0..r.range(1, 2) {
            let ti = r.range(1, n as u64 - 1) as usize;
            if tid_of(ti) != opts.blamed {
                let (trig, _) = exit_trigger(r, n);
                events.push(Event { trig, what: EventKind::ThreadExit { tid: tid_of(ti) } });
                push_tags(&mut tags, &["exits"]);
            }
        }
    }
    if r.chance(1, 4) {
        let (ss, sl) = stack_of(&b, opts.blamed);
        let exe = &b.modules[0];
        opts.crash = Some(crash_spec(r, opts.blamed, ss + sl / 2, exe.base + exe.image.text_off + 0x200));
        tags.push("crash".into());
    }
    if r.chance(1, 5) {
        opts.failspots |= (r.below(32) as u8) & !1;
    }
    let mut sc = simple_dump_scenario("C03", seed, "c03-base", b, opts);
    if r.chance(1, 4) {
        if let Workload::Dump(p) = &mut sc.workload {
            p.dests = vec![dest_plan(r, true)];
            tags.push("dest-faults".into());
        }
    }
    if r.chance(1, 5) {
        // a second request on the same writer: attach / detach cycles repeat, signals sent during the
        // first request may still be pending during the second
        if let Workload::Dump(p) = &mut sc.workload {
            let second = dest_plan(r, false);
            p.dests.push(second);
            tags.push("two-requests".into());
        }
    }
    sc.events = events;
    sc.faults = faults;
    sc.sched.steps_per_call = r.range(1, 3) as u32;
    sc.sched.sig_lowest_first = r.coin();
    sc.tags = tags;
    sc
}

/// Fault sweep for C03: one extra scenario per (fallible call of the recorded run, realistic failure).
pub fn c03_sweep(sc: &Scenario, res: &crate::run::RunResult, limit: usize) -> Vec<(String, Scenario)> {
    use CallKind as K;
    let Some(d) = res.dumps.first() else { return Vec::new() };
    let counts = &d.kernel_after.gt.counts;
    let mut cands: Vec<(String, Scenario)> = Vec::new();
    let mut r = Rng::new(sc.seed ^ 0xc03);
    let tids: Vec<i32> = sc.world.threads.iter().map(|t| t.tid).collect();
    let with = |label: String, f: &dyn Fn(&mut Scenario)| -> (String, Scenario) {
        let mut s2 = sc.clone();
        f(&mut s2);
        s2.profile = format!("c03-concrete: {}", label);
        (label, s2)
    };
    // state-neutral errno failures of kernel calls
    let neutral: [(K, &[i32]); 15] = [
        (K::Open, &[2, 13, 24, 4]),
        (K::Read, &[5, 3, 4]),
        (K::PtraceGetregs, &[5, 3]),
        (K::Nanosleep, &[4]),
        (K::Opendir, &[2, 24]),
        (K::Readdir, &[5]),
        (K::Statx, &[2]),
        (K::Stat, &[2]),
        (K::Readlink, &[2]),
        (K::Mmap, &[12]),
        (K::Vmreadv, &[14, 1, 38]),
        (K::PtraceAttach, &[3, 1]),
        (K::PtraceGetregset, &[5]),
        (K::PtracePeekuser, &[5]),
        (K::Waitpid, &[4]),
    ];
    for (kind, errnos) in neutral {
        let c = counts[kind as usize] as u32;
        for nth in 0..c {
            let e = errnos[(nth as usize + sc.seed as usize) % errnos.len()];
            cands.push(with(format!("errno{}@{:?}#{}", e, kind, nth), &|s| {
                s.faults.push(FaultRule { trig: Trigger { kind, nth, path: None }, effect: Effect::Errno(e), times: if kind == K::Waitpid { 1 + nth % 3 } else { 1 }, exotic: false });
            }));
        }
    }
    if counts[K::Kill as usize] > 0 && !sc.faults.iter().any(|f| f.trig.kind == K::Kill) {
        cands.push(with("errno1@Kill#0".into(), &|s| {
            s.faults.push(FaultRule { trig: Trigger { kind: K::Kill, nth: 0, path: None }, effect: Effect::Errno(1), times: 1, exotic: false });
        }));
    }
    // the target is killed at this point (every later ptrace call fails the way it really would)
    for kind in [K::PtraceAttach, K::Waitpid, K::PtraceGetregset, K::PtraceCont, K::PtraceDetach, K::Vmreadv, K::DestWrite, K::Kill, K::Readdir] {
        let c = counts[kind as usize] as u32;
        for nth in 0..c {
            cands.push(with(format!("sigkill@{:?}#{}", kind, nth), &|s| {
                s.events.push(Event { trig: Trigger { kind, nth, path: None }, what: EventKind::KillProcess });
            }));
        }
    }
    // a signal arrives at this point
    for kind in [K::PtraceAttach, K::Waitpid, K::PtraceGetregset, K::PtraceDetach, K::PtraceCont, K::Kill] {
        let c = counts[kind as usize] as u32;
        for nth in 0..c {
            let tid = *r.pick(&tids);
            let signo = *r.pick(&HANDLED_SIGNALS);
            cands.push(with(format!("signal@{:?}#{}", kind, nth), &|s| {
                s.events.push(Event { trig: Trigger { kind, nth, path: None }, what: EventKind::SignalThread { tid, signo, id: 900 + nth } });
            }));
        }
    }
    // destination failures at every destination call
    let nops = d.dest.ops.len() as u32;
    for k in 0..nops {
        for (name, fx) in [("error", DestFx::Error(28)), ("panic", DestFx::Panic), ("short", DestFx::Short(1)), ("eintr", DestFx::Interrupted), ("zero", DestFx::Zero)] {
            let fx2 = fx.clone();
            cands.push(with(format!("dest-{}@{}", name, k), &move |s| {
                if let Workload::Dump(p) = &mut s.workload {
                    p.dests[0].fx.retain(|(o, _)| *o != k);
                    p.dests[0].fx.push((k, fx2.clone()));
                    p.dests[0].fx.sort_by_key(|(o, _)| *o);
                }
            }));
        }
    }
    if cands.len() > limit {
        // stratified sample: the same share for every class of injected fault
        r.shuffle(&mut cands);
        let classes = ["errno", "sigkill@", "signal@", "dest-"];
        let per = limit / classes.len();
        let mut picked: Vec<(String, Scenario)> = Vec::new();
        let mut rest: Vec<(String, Scenario)> = Vec::new();
        let mut counts = [0usize; 4];
        for c in cands {
            let ci = classes.iter().position(|p| c.0.starts_with(p)).unwrap_or(0);
            if counts[ci] < per {
                counts[ci] += 1;
                picked.push(c);
            } else {
                rest.push(c);
            }
        }
        while picked.len() < limit {
            match rest.pop() {
                Some(c) => picked.push(c),
                None => break,
            }
        }
        cands = picked;
    }
    cands
}

fn hostile_addr(r: &mut Rng, b: &Built) -> u64 {
    let (ss, sl) = (b.stacks[0].1, b.stacks[0].2);
    match r.below(14) {
        0 => 0,
        1 => 1,
        2 => 0x1000,
        3 => u64::MAX,
        4 => u64::MAX - 7,
        5 => u64::MAX - 0xfff,
        6 => u64::MAX - (1 << 20) + r.below(1 << 20),
        7 => VSYSCALL + r.below(0x1000),
        8 => ss + sl - 1,       // last byte of a mapping
        9 => ss + sl,           // first byte after
        10 => ss - 1,
        11 => ss + r.below(sl) | 1, // misaligned
        12 => 0x7fff_ffff_f000 + r.below(0x1000),
        _ => r.next(),
    }
}

/// The region of "h:dynamic-without-end": readable memory without a terminating dynamic entry. Its
/// length bounds the work a hostile size field can legitimately ask for (a program header that declares
/// a 2 GiB dynamic segment there is read for as many bytes as are readable), so it is chosen as small as
/// the purpose allows: with 16-byte entries read one by one, a walk that lost its entry limit makes
/// 2^24 reads here - beyond every call budget a C02 scenario runs with (2 * 10^6, 12 * 10^6 with
/// "h:link-map") - while the largest legitimate transfer stays at 256 MiB instead of 2 GiB, which took a
/// worker past its CPU-time watchdog on a machine whose memory was slow to fault in (DESIGN 8.4).
const VAST_START: u64 = 0x6900_0000_0000;
const VAST_LEN: u64 = 256 << 20;

fn gen_c02(r: &mut Rng, seed: u64) -> Scenario {
    let (mut sc, _) = rich_dump(r, "C02", seed, "c02-hostile", true);
    // rebuild a Built-like view for helpers
    let stacks: Vec<(i32, u64, u64)> = sc
        .world
        .threads
        .iter()
        .filter_map(|t| {
            let sp = t.regs[R_RSP];
            sc.world.regions.iter().find(|g| sp >= g.start && sp < g.end()).map(|g| (t.tid, g.start, g.len))
        })
        .collect();
    let fake = Built { world: World::default(), modules: Vec::new(), stacks: if stacks.is_empty() { vec![(PID, MAIN_STACK_TOP - 0x2000, 0x2000)] } else { stacks }, heap: (HEAP_BASE, 0x21000), vdso_base: VVAR_BASE + 0x4000, anon_next: ANON_BASE + 0x4000_0000 };
    let mut tags = sc.tags.clone();
    let nh = r.range(1, 4);
    for _ in 0..nh {
        match r.below(22) {
            0 | 1 => {
                // hostile crash context registers
                let blamed = match &sc.workload { Workload::Dump(p) => p.opts.blamed, _ => PID };
                let rsp = hostile_addr(r, &fake);
                let rip = hostile_addr(r, &fake);
                let cs = crash_spec(r, blamed, rsp, rip);
                if let Workload::Dump(p) = &mut sc.workload {
                    p.opts.crash = Some(cs);
                }
                push_tags(&mut tags, &["h:crash-regs"]);
                if (rip < 0x1000 || rsp < 0x1000) && r.coin() && !sc.world.regions.iter().any(|g| g.start < 0x1000) {
                    // page zero is mapped (vm.mmap_min_addr = 0): a jump through a null pointer lands in a mapping
                    sc.world.regions.push(RegionSpec { start: 0, len: 0x1000, perms: "rwxp".into(), offset: 0, inode: 0, name: B(Vec::new()), deleted: false, content: Content::Pattern(r.next()) });
                    sc.world.regions.sort_by_key(|g| g.start);
                    push_tags(&mut tags, &["h:page-zero-mapped"]);
                }
            }
            2 => {
                let n = sc.world.threads.len() as u64;
                let ti = r.below(n) as usize;
                sc.world.threads[ti].regs[R_RSP] = hostile_addr(r, &fake);
                if r.coin() {
                    sc.world.threads[ti].regs[R_RIP] = hostile_addr(r, &fake);
                }
                push_tags(&mut tags, &["h:thread-regs"]);
            }
            3 => {
                // program headers of the executable in memory
                let off = EXE_BASE + 0x40 + r.below(6) * 56 + *r.pick(&[0u64, 8, 16, 32, 40, 48]);
                sc.world.plants.push((off, *r.pick(&BOUNDARY)));
                push_tags(&mut tags, &["h:phdr-bytes"]);
            }
            4 => {
                for kv in sc.world.auxv.iter_mut() {
                    if kv.0 == AT_PHNUM && r.coin() {
                        kv.1 = *r.pick(&[0u64, 1, 100_000, 1 << 63, u64::MAX / 56, u64::MAX]);
                    }
                    if kv.0 == AT_PHDR && r.coin() {
                        kv.1 = *r.pick(&[0x1000u64, EXE_BASE + 0x3000 - 8, EXE_BASE + 0xfff, u64::MAX - 8, HEAP_BASE + 0x21000 - 56]);
                    }
                    if kv.0 == AT_ENTRY && r.chance(1, 3) {
                        kv.1 = *r.pick(&[0u64, u64::MAX, 1 << 63]);
                    }
                    if kv.0 == AT_SYSINFO_EHDR && r.chance(1, 3) {
                        kv.1 = *r.pick(&[0u64, u64::MAX, HEAP_BASE]);
                    }
                }
                push_tags(&mut tags, &["h:auxv-values"]);
            }
            5 => {
                // linker list: cyclic, self-referential, dangling, bad names
                let lm0 = HEAP_BASE + 0x40;
                match r.below(7) {
                    0 => sc.world.plants.push((lm0 + 24, lm0)),                       // first -> itself
                    1 => sc.world.plants.push((lm0 + 40 + 24, lm0)),                  // second -> first
                    2 => sc.world.plants.push((lm0 + 24, 0x1000)),                    // dangling
                    3 => sc.world.plants.push((lm0 + 8, HEAP_BASE + 0x21000 - 5)),    // name runs off the mapping
                    4 => sc.world.plants.push((lm0 + 8, 0x2000)),                     // name unmapped
                    5 => sc.world.plants.push((HEAP_BASE + 8, HEAP_BASE + 0x21000 - 16)), // r_map at mapping end: short link_map read
                    _ => {
                        // name with invalid UTF-8
                        sc.world.plants.push((HEAP_BASE + 0x1800, 0x00ff_fe41_4243_ff80));
                        sc.world.plants.push((lm0 + 8, HEAP_BASE + 0x1800));
                    }
                }
                push_tags(&mut tags, &["h:link-map"]);
            }
            6 => {
                // DT_DEBUG -> r_debug at odd places; dynamic without terminator
                let dyn_debug = sc.world.regions.iter().find(|g| g.start >= EXE_BASE && g.perms == "rw-p" && g.name.0 == b"/usr/bin/app").map(|g| g.start);
                if let Some(d) = dyn_debug {
                    match r.below(4) {
                        0 => sc.world.plants.push((d + 2 * 16 + 8, HEAP_BASE + 0x21000 - 8)), // r_debug straddles the end
                        1 => sc.world.plants.push((d + 2 * 16 + 8, 0)),
                        2 => {
                            // no DT_NULL anywhere: tags all non-zero up to the end of the page
                            for i in 0..256u64 {
                                sc.world.plants.push((d + i * 16, 0x6000_0000 + i));
                            }
                        }
                        _ => sc.world.plants.push((d + 2 * 16 + 8, u64::MAX - 3)),
                    }
                    push_tags(&mut tags, &["h:dynamic"]);
                }
            }
            7 => {
                let n = sc.world.threads.len() as u64;
                let ti = r.below(n) as usize;
                let len = r.below(16) as usize;
                let mut v = r.bytes(len);
                for c in v.iter_mut() {
                    if *c == b'\n' || *c == 0 {
                        *c = b'?';
                    }
                }
                sc.world.threads[ti].comm = B(v);
                push_tags(&mut tags, &["h:comm-bytes"]);
            }
            8 | 9 => {
                // mapping names
                let names: [&[u8]; 19] = [
                    b"/usr/lib/liba.so.1.2.3.4rc5",
                    b"/usr/lib/liba.so.6.0.0.1beta2",
                    b"/usr/lib/liba.so.1.2.3.4.5rc6",
                    b"/usr/lib/x.so.1.2.3\xc3\xa94",
                    b"/usr/lib/lib\xe6\xbc\xa2.so.1.\xe6\xbc\xa2",
                    b"/usr/lib/liba.so.",
                    b"/usr/lib/liba.so..",
                    b"/usr/lib/liba.so.1.2.3.4.5.6",
                    b"/usr/lib/liba.so.99999999999999999999",
                    b"/usr/lib/liba.so.1.2.\xc3\xa9",
                    b"/usr/lib/liba.so.1.2.3-\xe2\x82\xac9",
                    b"/SYSVab",
                    b"/SYSV00000000 (deleted)",
                    b"/SYSV",
                    b"/dev/shm/sim-segment",
                    b"/dev/zero (deleted)",
                    b"/dev/dri/renderD128",
                    b"/tmp/\xff\xfe name with  spaces ",
                    b"[anon:scudo:primary]",
                ];
                let nm = *r.pick(&names);
                // rename one library (all its lines) or add a fresh mapping with that name
                if r.coin() {
                    let libs: Vec<B> = sc.world.regions.iter().filter(|g| g.name.0.starts_with(b"/usr/lib/libsim")).map(|g| g.name.clone()).collect();
                    if let Some(old) = libs.first().cloned() {
                        for g in sc.world.regions.iter_mut() {
                            if g.name == old {
                                g.name = B(nm.to_vec());
                            }
                        }
                        if r.coin() {
                            for f in sc.world.files.iter_mut() {
                                if f.path == old {
                                    f.path = B(nm.to_vec());
                                }
                            }
                        }
                    }
                } else {
                    let start = ANON_BASE + 0x5000_0000 + r.below(64) * 0x10_0000;
                    if !sc.world.regions.iter().any(|g| g.start < start + 0x3000 && start < g.end()) {
                        sc.world.regions.push(RegionSpec { start, len: 0x3000, perms: (*r.pick(&["r-xp", "rw-s", "r--p"])).into(), offset: *r.pick(&[0u64, 0x1000]), inode: 777, name: B(nm.to_vec()), deleted: false, content: if r.coin() { Content::Pattern(r.next()) } else { Content::Zero } });
                        sc.world.regions.sort_by_key(|g| g.start);
                        if nm.starts_with(b"/dev/") && r.coin() {
                            sc.world.files.push(FileSpec { path: B(nm.to_vec()), content: B(r.bytes(0x3000)), mode: 0o100666 });
                        }
                    }
                }
                push_tags(&mut tags, &["h:map-names"]);
            }
            10 => {
                sc.world.status_extra = B(match r.below(5) {
                    0 => b"x\n".to_vec(),
                    1 => b"Tgid:\tabc\n".to_vec(),
                    2 => b"PPid:\t\n".to_vec(),
                    3 => vec![0xff, 0xfe, b'\n', b'T', b'g', b'\n'],
                    _ => b"Tgid:\t99999999999999999999\n".to_vec(),
                });
                push_tags(&mut tags, &["h:status-lines"]);
            }
            11 | 12 => {
                // syscall faults, realistic and exotic
                let kinds = [CallKind::Open, CallKind::Read, CallKind::Pread, CallKind::Vmreadv, CallKind::Opendir, CallKind::Readdir, CallKind::Statx, CallKind::Stat, CallKind::Readlink, CallKind::Mmap, CallKind::PtraceAttach, CallKind::PtraceGetregset, CallKind::PtraceGetregs, CallKind::PtracePeekuser, CallKind::PtraceDetach, CallKind::Waitpid, CallKind::Kill, CallKind::Uname, CallKind::Nanosleep];
                let kind = *r.pick(&kinds);
                let effect = match r.below(5) {
                    0 if matches!(kind, CallKind::Read | CallKind::Pread | CallKind::Vmreadv) => Effect::Short(*r.pick(&[1u64, 3, 7, 8, 15, 100])),
                    _ => Effect::Errno(*r.pick(&[1, 2, 3, 4, 5, 9, 10, 12, 13, 14, 22, 24, 28, 38])),
                };
                sc.faults.push(FaultRule { trig: Trigger { kind, nth: r.below(30) as u32, path: None }, effect, times: *r.pick(&[1u32, 1, 2, 1000]), exotic: true });
                push_tags(&mut tags, &["h:syscall-faults"]);
            }
            13 => {
                if let Workload::Dump(p) = &mut sc.workload {
                    match r.below(4) {
                        0 => p.opts.app_memory.push((hostile_addr(r, &fake), *r.pick(&[0u64, 1, 8, 4096]))),
                        1 => p.opts.principal = Some(hostile_addr(r, &fake)),
                        2 => p.opts.user_mappings.push(UserMapSpec { sysinfo_zeroed: r.coin(), start: *r.pick(&[0u64, u64::MAX - 10, 1 << 63, 0x6200_0000_0000]), size: *r.pick(&[0u64, 100, u64::MAX, 0x4000]), offset: 0, perms: "r-xp".into(), name: match r.below(5) { 0 => None, 1 => Some(B(vec![0xff, b'/', b'x'])), 2 => Some(B(b"/dev/shm/caf\xe9-segment".to_vec())), 3 => Some(B(b"/dev/shm/user-segment".to_vec())), _ => Some(B(b"/dev/\xff\xfe".to_vec())) }, identifier: B({ let n = r.pick_copy(&[0usize, 1, 16, 64]); r.bytes(n) }) }),
                        _ => p.opts.direct_auxv = Some(vec![*r.pick(&[0u64, 1, 1 << 40, u64::MAX]), hostile_addr(r, &fake), hostile_addr(r, &fake), hostile_addr(r, &fake)]),
                    }
                }
                push_tags(&mut tags, &["h:caller-config"]);
            }
            16 | 17 => {
                // structure-aware corruption of a mapped library (memory image and file alike)
                let libs: Vec<B> = {
                    let mut v: Vec<B> = Vec::new();
                    for g in &sc.world.regions {
                        if g.name.0.starts_with(b"/usr/lib/libsim") && !v.contains(&g.name) {
                            v.push(g.name.clone());
                        }
                    }
                    v
                };
                if let Some(name) = libs.first().cloned() {
                    let base = sc.world.regions.iter().filter(|g| g.name == name).map(|g| g.start).min().unwrap_or(0);
                    // interesting places: ELF header, program headers, section headers, note, dynamic entries
                    let off = match r.below(6) {
                        0 => *r.pick(&[32u64, 40, 54, 56, 58, 60, 62]),
                        1 => 0x40 + r.below(6) * 56 + *r.pick(&[0u64, 8, 16, 32, 40, 48]),
                        2 => 0x400 + r.below(6) * 64 + *r.pick(&[0u64, 4, 8, 16, 24, 32, 40, 48]),
                        3 => 0x200 + *r.pick(&[0u64, 4, 8]),
                        _ => {
                            // dynamic section lives at the start of the library's rw page
                            let d = sc.world.regions.iter().find(|g| g.name == name && g.perms == "rw-p").map(|g| g.start - base).unwrap_or(0x2000);
                            d + r.below(6) * 16 + *r.pick(&[0u64, 8])
                        }
                    };
                    let val = match r.below(4) {
                        0 => {
                            // equal to a neighbouring field (e.g. DT_SONAME == DT_STRSZ)
                            r.below(64)
                        }
                        _ => *r.pick(&BOUNDARY),
                    };
                    sc.world.plants.push((base + (off & !7), val));
                    push_tags(&mut tags, &["h:lib-elf-bytes"]);
                }
            }
            14 => {
                sc.world.auxv_cut = r.below(40);
                sc.world.auxv_terminated = r.coin();
                push_tags(&mut tags, &["h:auxv-file"]);
            }
            15 => {
                // the stop does not take effect in time (or at all)
                for t in sc.world.threads.iter_mut() {
                    t.stop_latency_ns = *r.pick(&[0u64, 2_000_000, 150_000_000, 10_000_000_000]);
                }
                if let Workload::Dump(p) = &mut sc.workload {
                    p.opts.stop_timeout_ms = Some(*r.pick(&[0u64, 1, 5, 100]));
                }
                if r.chance(1, 4) {
                    // "wait as long as it takes" (Duration::MAX): only where the stop does arrive
                    for t in sc.world.threads.iter_mut() {
                        t.stop_latency_ns = t.stop_latency_ns.min(150_000_000);
                    }
                    if let Workload::Dump(p) = &mut sc.workload {
                        p.opts.stop_timeout_ms = Some(u64::MAX);
                    }
                    push_tags(&mut tags, &["h:stop-timeout-max"]);
                } else if r.chance(1, 3) && sc.world.threads.len() > 1 {
                    let blamed = match &sc.workload { Workload::Dump(p) => p.opts.blamed, _ => PID };
                    if blamed != PID {
                        sc.world.threads[0].zombie = true;
                    }
                }
                push_tags(&mut tags, &["h:stop-late"]);
            }
            21 => {
                // the program header of the dynamic section points into a vast region that holds no
                // terminating entry (corrupted header table; the region is some arena of the target)
                let mut ph_dyn: Option<u64> = None;
                if let Some(g) = sc.world.regions.iter().find(|g| g.start == EXE_BASE) {
                    if let Content::Bytes(bytes) = &g.content {
                        let bb = &bytes.0;
                        if bb.len() > 64 {
                            let phoff = u64::from_le_bytes(bb[32..40].try_into().unwrap()) as usize;
                            let phnum = u16::from_le_bytes(bb[56..58].try_into().unwrap()) as usize;
                            for i in 0..phnum {
                                let o = phoff + i * 56;
                                if o + 56 <= bb.len() && u32::from_le_bytes(bb[o..o + 4].try_into().unwrap()) == 2 {
                                    ph_dyn = Some(o as u64);
                                }
                            }
                        }
                    }
                }
                let start = VAST_START;
                let len: u64 = VAST_LEN;
                if let Some(o) = ph_dyn {
                    if !sc.world.regions.iter().any(|g| g.start < start + (64 << 30) && start < g.end()) {
                        sc.world.regions.push(RegionSpec { start, len, perms: "rw-p".into(), offset: 0, inode: 0, name: B(Vec::new()), deleted: false, content: Content::Pattern(r.next()) });
                        sc.world.regions.sort_by_key(|g| g.start);
                        sc.world.plants.push((EXE_BASE + o + 16, start - EXE_BASE));
                        push_tags(&mut tags, &["h:dynamic-without-end"]);
                    }
                }
            }
            20 => {
                // a thread in an uninterruptible sleep that does not end (a vfork parent whose child never
                // execs, a hung network file system, a frozen cgroup): it takes no signal, ever
                let n = sc.world.threads.len() as u64;
                let ti = r.below(n) as usize;
                if !sc.world.threads[ti].zombie {
                    sc.world.threads[ti].blocked_until_ns = 1_000_000_000_000_000;
                    push_tags(&mut tags, &["h:sleeps-forever"]);
                }
            }
            _ => {
                // events: process killed or threads exiting at arbitrary calls
                let kind = *r.pick(&[CallKind::Read, CallKind::PtraceAttach, CallKind::Waitpid, CallKind::Vmreadv, CallKind::PtraceGetregset, CallKind::Open, CallKind::Pread, CallKind::Pread, CallKind::PtracePeekdata]);
                sc.events.push(Event { trig: Trigger { kind, nth: r.below(40) as u32, path: None }, what: EventKind::KillProcess });
                push_tags(&mut tags, &["h:killed"]);
                if matches!(kind, CallKind::Pread | CallKind::PtracePeekdata) || r.chance(1, 3) {
                    // ... while the writer is on a fallback read strategy (an open /proc/pid/mem handle
                    // outlives the target)
                    reader_knob_forced(r, &mut sc.faults, &mut tags, kind == CallKind::PtracePeekdata);
                }
            }
        }
    }
    // a corrupt (e.g. cyclic) linker list is followed for at most 16384 entries, each with a name of up
    // to PATH_MAX bytes: word by word through ptrace that is bounded, but by more calls than the default budget
    if tags.iter().any(|t| t == "h:link-map") {
        sc.sched.max_calls = 12_000_000;
    }
    // When every remote read is forced through PTRACE_PEEKDATA, one word per call, a segment that a
    // hostile header field declares gigabytes long and that lies in the vast region of "h:dynamic-without-end"
    // is read for tens of millions of calls: bounded by the memory that is there, but far beyond what
    // a run's call budget can tell from a loop. The region keeps VAST_LEN for the other read strategies.
    if tags.iter().any(|t| t == "reader:peekdata") {
        if let Some(g) = sc.world.regions.iter_mut().find(|g| g.start == VAST_START && g.len == VAST_LEN) {
            g.len = 1 << 20;
        }
    }
    // an unlimited stop timeout is a request to wait for as long as the stop takes: keep it for worlds
    // where the stop does arrive (a zombie leader never shows state T, a late stopper needs its time)
    if let Workload::Dump(p) = &mut sc.workload {
        if p.opts.stop_timeout_ms == Some(u64::MAX) {
            let never = sc.world.threads.first().map(|t| t.foreign_tracer).unwrap_or(false) || sc.world.threads.iter().skip(1).any(|t| t.foreign_tracer && sc.world.threads[0].zombie) || !sc.events.is_empty() || sc.world.threads.iter().any(|t| t.stop_latency_ns > 150_000_000 || t.blocked_until_ns > 0) || sc.faults.iter().any(|f| f.trig.kind == CallKind::Kill);
            if never {
                p.opts.stop_timeout_ms = Some(100);
            }
        }
    }
    sc.tags = tags;
    sc
}

/// A dump whose image outgrows the 32-bit offsets of the format: five threads, each running at
/// the low end of a 1 GiB anonymous mapping (every stack is captured up to the end of its mapping).
/// No such image can be described; the request has to fail rather than hand out wrapped offsets.
fn gen_over_4gib(r: &mut Rng, prop: &str, seed: u64) -> Scenario {
    let n = 5usize;
    let mut cfg = plain_cfg(n, 0);
    cfg.nfds = 1;
    let mut b = build_world(r, &cfg);
    for ti in 0..n {
        let start = b.add_anon((1 << 30) + 0x1000, "rw-p", 0, 1);
        if let Some(g) = b.world.regions.iter_mut().find(|g| g.start == start) {
            g.content = Content::Zero;
        }
        b.world.threads[ti].regs[R_RSP] = start + 0x100 + 8 * r.below(64);
    }
    let opts = Opts { blamed: PID, ..Default::default() };
    let mut sc = simple_dump_scenario(prop, seed, "over-4gib", b, opts);
    sc.tags = vec!["over-4gib".into()];
    sc
}

/// A dump with one flush of more than 1 GiB (a thread running at the low end of a mapping of 1 GiB
/// and a few pages): an image the format can describe, handed to the destination in one piece.
fn gen_over_1gib(r: &mut Rng, prop: &str, seed: u64) -> Scenario {
    let n = 2usize;
    let mut cfg = plain_cfg(n, 0);
    cfg.nfds = 1;
    let mut b = build_world(r, &cfg);
    let start = b.add_anon((1 << 30) + 0x1000 * r.range(1, 5), "rw-p", 0, 1);
    if let Some(g) = b.world.regions.iter_mut().find(|g| g.start == start) {
        g.content = Content::Zero;
    }
    b.world.threads[1].regs[R_RSP] = start + 0x100 + 8 * r.below(64);
    let opts = Opts { blamed: PID, ..Default::default() };
    let mut sc = simple_dump_scenario(prop, seed, "over-1gib", b, opts);
    sc.tags = vec!["over-1gib".into()];
    sc
}

/// The crash context names a thread that is not a thread of the target: the exception stream then
/// writes its own copy of the CPU context (the path that does not reuse a listed thread's context).
fn blame_unlisted_thread(r: &mut Rng, sc: &mut Scenario) {
    if !r.chance(1, 5) {
        return;
    }
    if let Workload::Dump(p) = &mut sc.workload {
        if let Some(cs) = p.opts.crash.as_mut() {
            cs.tid = PID + 5000;
            p.opts.blamed = PID + 5000;
            sc.tags.push("blamed-not-listed".into());
        }
    }
}

pub fn generate(prop: &str, verif_seed: u64, idx: u64) -> Scenario {
    let seed = derive_seed(verif_seed, prop, idx);
    let mut r = Rng::new(seed);
    match prop {
        "C01" | "C10" if idx == 16 => gen_over_4gib(&mut r, prop, seed),
        "C01" | "C09" | "C10" if idx == 17 => gen_over_1gib(&mut r, prop, seed),
        "C01" => {
            let benign = idx % 2 == 1;
            let mut sc = rich_dump(&mut r, prop, seed, if benign { "c01-benign-faults" } else { "c01-clean" }, benign).0;
            if benign && r.chance(1, 10) {
                kill_at_linker_read(&mut r, &mut sc);
            }
            blame_unlisted_thread(&mut r, &mut sc);
            sc
        }
        "C02" => gen_c02(&mut r, seed),
        "C03" => gen_c03(&mut r, seed),
        "C04" => gen_c04(&mut r, seed),
        "C05" => gen_c05(&mut r, seed),
        "C06" => gen_c06(&mut r, seed, idx),
        "C07" => gen_c07(&mut r, seed),
        "C15" => gen_c15(&mut r, seed, idx),
        "C20" => gen_c20(&mut r, seed),
        "C17" => gen_c17(&mut r, seed, idx),
        "C11" => gen_c11(&mut r, seed, idx),
        "C18" => gen_c18(&mut r, seed),
        "C14" => gen_c14(&mut r, seed),
        "C08" => gen_c08(&mut r, seed),
        "C09" => match idx % 3 {
            0 => {
                let mut sc = small_rich(&mut r, prop, seed, "c09-dump-dest-faults");
                if let Workload::Dump(p) = &mut sc.workload {
                    p.dests = vec![dest_plan(&mut r, true)];
                }
                sc
            }
            1 => {
                let mut sc = small_rich(&mut r, prop, seed, "c09-dump-offsets");
                if let Workload::Dump(p) = &mut sc.workload {
                    p.dests = vec![dest_plan(&mut r, false)];
                    sc.tags.push(format!("start{}", p.dests[0].start.min(2)));
                }
                sc
            }
            _ => {
                let p = dir_plan(&mut r);
                let tags = vec![format!("ops{}", p.ops.len() / 8), format!("slots{}", p.slots), format!("fx{}", p.dest.fx.len()), format!("start{}", p.dest.start.min(2))];
                Scenario {
                    prop: prop.into(),
                    seed,
                    profile: "c09-dirsection-sequences".into(),
                    world: World { pid: PID, ..Default::default() },
                    workload: Workload::DirSection(p),
                    events: Vec::new(),
                    faults: Vec::new(),
                    sched: Sched::default(),
                    tags,
                }
            }
        },
        "C10" => {
            let mut sc = small_rich(&mut r, prop, seed, "c10-crash-points");
            if let Workload::Dump(p) = &mut sc.workload {
                p.dests = vec![dest_plan(&mut r, false)];
                if r.chance(1, 4) {
                    p.dests[0].short_entry = *r.pick(&[1u64, 2, 3, 4, 7, 8, 11]);
                    sc.tags.push("entry-writes-split".into());
                }
            }
            if r.chance(1, 10) {
                kill_at_linker_read(&mut r, &mut sc);
            }
            blame_unlisted_thread(&mut r, &mut sc);
            sc
        }
        "C19" => {
            let mut sc = small_rich(&mut r, prop, seed, "c19-reuse");
            let n = r.range(2, 5) as usize;
            let tids: Vec<i32> = sc.world.threads.iter().map(|t| t.tid).collect();
            if let Workload::Dump(p) = &mut sc.workload {
                p.dests = (0..n).map(|_| dest_plan(&mut r, false)).collect();
                if r.chance(1, 3) {
                    // one failing request followed by further ones
                    let k = r.below(n as u64 - 1) as usize;
                    p.dests[k].fx = vec![(r.below(60) as u32, DestFx::Error(28))];
                    sc.tags.push("failed-request".into());
                }
                let evolve = r.coin();
                let lib_names: Vec<B> = {
                    let mut v: Vec<B> = Vec::new();
                    for g in &sc.world.regions {
                        if g.name.0.starts_with(b"/usr/lib/libsim") && !v.contains(&g.name) {
                            v.push(g.name.clone());
                        }
                    }
                    v
                };
                let mut unmap_at: Option<usize> = None;
                if !lib_names.is_empty() && r.chance(1, 3) {
                    // the principal mapping is a library that is unloaded between two requests;
                    // some threads hold pointers into it
                    let victim = r.pick(&lib_names).clone();
                    if let Some(g) = sc.world.regions.iter().find(|g| g.name == victim) {
                        let lo = g.start;
                        p.opts.skip_unref = true;
                        p.opts.principal = Some(lo + 0x10);
                        for t in sc.world.threads.iter() {
                            if r.coin() {
                                let sp = t.regs[R_RSP];
                                sc.world.plants.push(((sp + 7) & !7, lo + 0x20 + r.below(0x800)));
                            }
                        }
                        unmap_at = Some(r.below(n as u64 - 1) as usize);
                        sc.tags.push("principal-unloaded".into());
                        let k = unmap_at.unwrap();
                        while p.between.len() <= k {
                            p.between.push(Vec::new());
                        }
                        p.between[k].push(EventKind::UnmapNamed { name: victim });
                    }
                }
                // an application memory region that is not mapped (yet): requests fail while it is
                // absent; the target may map it between two requests
                let mut map_later: Option<(usize, EventKind)> = None;
                if r.chance(1, 5) {
                    let hole = 0x5a00_0000_0000u64 + r.below(16) * 0x10_0000;
                    let len = *r.pick(&[8u64, 64, 4096]);
                    p.opts.app_memory.push((hole + r.below(0x1000 - 64), len.min(64)));
                    sc.tags.push("appmem-unmapped".into());
                    if r.coin() {
                        map_later = Some((r.below(n as u64 - 1) as usize, EventKind::MapAnon { start: hole, len: 0x2000, seed: r.next() }));
                        sc.tags.push("appmem-mapped-later".into());
                    }
                }
                let prefilled = p.between.len();
                let _ = unmap_at;
                for bi in 1..n {
                    if bi - 1 < prefilled {
                        continue;
                    }
                    let mut evs = Vec::new();
                    if evolve {
                        for _ in 0..r.below(3) {
                            match r.below(5) {
                                4 => {
                                    // the blamed thread stops being attachable (another tracer takes it)
                                    evs.push(EventKind::ForeignTracer { tid: p.opts.blamed, on: true });
                                }
                                0 if tids.len() > 1 => {
                                    let t = *r.pick(&tids[1..]);
                                    if t != p.opts.blamed {
                                        evs.push(EventKind::ThreadExit { tid: t });
                                    }
                                }
                                1 => evs.push(EventKind::Rename { tid: *r.pick(&tids), comm: B::s("renamed") }),
                                2 => evs.push(EventKind::CloseFd { fd: r.below(4) as u32 }),
                                _ => evs.push(EventKind::WriteMem { addr: HEAP_BASE + 0x1000 + r.below(0x100) * 8, val: r.next() }),
                            }
                        }
                    }
                    p.between.push(evs);
                }
                if let Some((k, ev)) = map_later {
                    while p.between.len() <= k {
                        p.between.push(Vec::new());
                    }
                    p.between[k].push(ev);
                }
                if evolve {
                    sc.tags.push("evolving".into());
                }
                sc.tags.push(format!("n{}", n));
            }
            sc
        }
        _ => rich_dump(&mut r, prop, seed, "generic", false).0,
    }
}
