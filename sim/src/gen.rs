//! seed -> scenario. The base-world builder shared by all profiles.

use crate::elfgen::{self, ElfImage, ElfSpec};
use crate::rng::{mix64, Rng};
use crate::scenario::*;

pub const PID: i32 = 0x4000_1000;
pub const EXE_BASE: u64 = 0x5555_5555_4000;
pub const HEAP_BASE: u64 = 0x5555_5600_0000;
pub const LIB_BASE: u64 = 0x7f00_1000_0000;
pub const ANON_BASE: u64 = 0x7f10_0000_0000;
pub const STACKS_BASE: u64 = 0x7f20_0000_0000;
pub const MAIN_STACK_TOP: u64 = 0x7ffc_0000_0000;
pub const VVAR_BASE: u64 = 0x7ffd_0000_0000;
pub const VSYSCALL: u64 = 0xffff_ffff_ff60_0000;

pub const AT_PHDR: u64 = 3;
pub const AT_PHNUM: u64 = 5;
pub const AT_PAGESZ: u64 = 6;
pub const AT_BASE: u64 = 7;
pub const AT_ENTRY: u64 = 9;
pub const AT_SYSINFO_EHDR: u64 = 33;

#[derive(Clone, Debug)]
pub struct WorldCfg {
    pub nthreads: usize,
    pub nlibs: usize,
    pub stack_pages_min: u64,
    pub stack_pages_max: u64,
    pub nfds: usize,
    /// probability (per 16) that a lib has no build id / no soname / no sections
    pub lib_variety: bool,
    pub link_map: bool,
    pub exe_name: &'static str,
    /// library 0 carries its own DT_DEBUG leading to a second, different linker list
    pub alt_chain: bool,
    /// object names of the linker list are packed at the very end of a mapping that is followed
    /// by unmapped memory (a 256-byte read of such a name comes back short)
    pub names_at_end: bool,
    /// some libraries get a reserved gap between their text and data mappings
    pub lib_gaps: bool,
}

impl Default for WorldCfg {
    fn default() -> Self {
        WorldCfg {
            nthreads: 3,
            nlibs: 2,
            stack_pages_min: 2,
            stack_pages_max: 8,
            nfds: 4,
            lib_variety: false,
            link_map: true,
            exe_name: "/usr/bin/app",
            alt_chain: false,
            names_at_end: false,
            lib_gaps: false,
        }
    }
}

pub fn tid_of(i: usize) -> i32 {
    if i == 0 {
        PID
    } else {
        PID + 10 + i as i32 * 3
    }
}

/// Field-unique register values for (tid, field).
pub fn unique_regs(tid: i32, rsp: u64, rip: u64) -> Vec<u64> {
    let mut r = vec![0u64; NREGS];
    for (i, slot) in r.iter_mut().enumerate() {
        *slot = mix64(tid as u64, 0x1000 + i as u64) | 1;
    }
    r[R_RSP] = rsp;
    r[R_RIP] = rip;
    r[R_CS] = 0x33;
    r[R_SS] = 0x2b;
    for (k, i) in [R_DS, R_ES, R_FS, R_GS].iter().enumerate() {
        r[*i] = (mix64(tid as u64, 0x2000 + k as u64) & 0xfffb) | 4;
    }
    r[R_EFLAGS] = (mix64(tid as u64, 0x2100) & 0xffff_ffff) | 2;
    r
}

pub fn unique_fp(tid: i32) -> Vec<u8> {
    let mut r = Rng::new(mix64(tid as u64, 0x3000));
    let mut v = r.bytes(512);
    // ftw: abridged 8-bit tag in a 16-bit slot
    v[5] = 0;
    // rip / rdp: keep them in 32 bits (the format's fields are 32 bits wide)
    for i in 12..16 {
        v[i] = 0;
    }
    for i in 20..24 {
        v[i] = 0;
    }
    v
}

pub fn unique_dregs(tid: i32) -> Vec<u64> {
    (0..8).map(|i| mix64(tid as u64, 0x4000 + i)).collect()
}

pub struct Module {
    pub path: String,
    pub base: u64,
    pub image: ElfImage,
}

pub struct Built {
    pub world: World,
    pub modules: Vec<Module>,
    /// (tid, stack region start, len)
    pub stacks: Vec<(i32, u64, u64)>,
    pub heap: (u64, u64),
    pub vdso_base: u64,
    pub anon_next: u64,
}

pub fn elf_regions(path: &str, base: u64, img: &ElfImage, inode: u64, mem: &[u8], out: &mut Vec<RegionSpec>) {
    // (file offset, virtual address, length, permissions)
    let segs = [
        (0u64, 0u64, 0x1000u64, "r--p"),
        (img.text_off, img.text_off, img.text_len, "r-xp"),
        (img.data_off, img.data_vaddr, 0x1000, "rw-p"),
    ];
    for (off, vaddr, len, perms) in segs {
        out.push(RegionSpec {
            start: base + vaddr,
            len,
            perms: perms.to_string(),
            offset: off,
            inode,
            name: B::s(path),
            deleted: false,
            content: Content::Bytes(B(mem[off as usize..(off + len) as usize].to_vec())),
        });
    }
    if let Some((mo, mv, ml)) = img.moved {
        // segment appended by a post-link tool
        let bytes: Vec<u8> = (0..ml as usize).map(|k| mem.get(mo as usize + k).copied().unwrap_or(0)).collect();
        out.push(RegionSpec { start: base + mv, len: ml, perms: "r--p".into(), offset: mo, inode, name: B::s(path), deleted: false, content: Content::Bytes(B(bytes)) });
    }
    if img.data_vaddr > img.data_off {
        // the loader's reserved, inaccessible gap between text and data
        out.push(RegionSpec {
            start: base + img.data_off,
            len: img.data_vaddr - img.data_off,
            perms: "---p".into(),
            offset: 0,
            inode: 0,
            name: B(Vec::new()),
            deleted: false,
            content: Content::Zero,
        });
    }
}

pub fn lib_spec(r: &mut Rng, variety: bool, idx: usize) -> ElfSpec {
    let mut s = ElfSpec {
        build_id: Some(r.bytes(20)),
        note_in_phdr: true,
        soname: Some(format!("libsim{}.so.{}", idx, r.below(9))),
        sections: true,
        text_pages: r.range(1, 3),
        text_seed: r.next(),
        dt_debug: false,
        dyn_pad: r.below(3) as u32,
        with_pt_phdr: r.coin(),
        sections_at_end: false,
        rodata_before_text: false,
        data_gap_pages: 0,
        link_base: 0,
        text_sec_skip: 0, moved_tables: false, force_dyn: false, note_name_last: false, small_align: false,
    };
    if variety {
        match r.below(8) {
            0 => s.build_id = None,
            1 => s.soname = None,
            2 => s.sections = false,
            3 => {
                s.note_in_phdr = false;
            }
            4 => {
                let n = r.pick_copy(&[8usize, 16, 20, 32]);
                s.build_id = Some(r.bytes(n));
            }
            6 => {
                // processed by a post-link tool: note and string table moved to an appended segment
                s.moved_tables = true;
            }
            5 => {
                // no note at all: the id is the fold of the first executable section, which is not
                // the first allocated PROGBITS section
                s.build_id = None;
                s.rodata_before_text = r.coin();
                // the first executable section starts in the middle of a page and runs into the next
                s.text_pages = s.text_pages.max(2);
                s.text_sec_skip = r.pick_copy(&[0u64, 0x340, 0x7f8, 0xf00, 0xff0]);
            }
            _ => {
                // linked with `ld -n`: first segment not page aligned, alignment 8
                s.small_align = r.coin();
            }
        }
    }
    s
}

pub fn build_world(r: &mut Rng, cfg: &WorldCfg) -> Built {
    let mut regions: Vec<RegionSpec> = Vec::new();
    let mut files: Vec<FileSpec> = Vec::new();
    let mut modules: Vec<Module> = Vec::new();

    // ---- libraries first (their load info goes into the link map)
    let mut libs: Vec<(String, u64, ElfImage)> = Vec::new();
    for i in 0..cfg.nlibs {
        let mut spec = lib_spec(r, cfg.lib_variety, i);
        if cfg.alt_chain && i == 0 {
            spec.dt_debug = true;
        }
        if cfg.lib_gaps && r.chance(1, 3) {
            spec.data_gap_pages = r.range(1, 3);
        }
        let img = elfgen::build(&spec);
        // the third library's path carries a character outside the basic multilingual plane
        let mut path = format!("/usr/lib/libsim{}{}.so.{}.{}", i, if i == 2 { "-\u{1D4B3}" } else { "" }, r.below(4), r.below(30));
        if i == 1 && r.chance(1, 6) {
            // a library under a very long path (legal up to PATH_MAX); multi-byte characters so that a
            // cut at a fixed length can fall inside one
            let want = *r.pick(&[254usize, 257, 300, 1000]);
            let mut dir = String::from("/usr/lib/");
            while dir.len() + 30 < want {
                dir.push_str("dé");
                if dir.len() % 50 < 3 {
                    dir.push('/');
                }
            }
            path = format!("{}/libsim1.so.{}", dir, r.below(9));
        }
        let base = LIB_BASE + i as u64 * 0x100_0000;
        libs.push((path, base, img));
    }

    // ---- heap blob: r_debug + link_map chain + names
    let heap_len = 0x21000u64;
    let mut heap = vec![0u8; 0x2000];
    let exe_spec = ElfSpec {
        build_id: Some(r.bytes(20)),
        note_in_phdr: true,
        soname: None,
        sections: true,
        text_pages: r.range(1, 3),
        text_seed: r.next(),
        dt_debug: true,
        dyn_pad: 0,
        with_pt_phdr: true,
        sections_at_end: false,
        rodata_before_text: false,
        data_gap_pages: 0,
        link_base: 0,
        text_sec_skip: 0, moved_tables: false, force_dyn: false, note_name_last: false, small_align: false,
    };
    let exe = elfgen::build(&exe_spec);
    if cfg.link_map {
        // r_debug at HEAP_BASE
        let n = 1 + libs.len();
        let lm0 = 0x40usize;
        let names0 = lm0 + n * 40;
        let mut name_off = names0;
        let mut entries: Vec<(u64, u64, u64)> = Vec::new(); // l_addr, name addr, l_ld
        // exe entry: empty name (l_name points at a NUL)
        heap[name_off] = 0;
        entries.push((EXE_BASE, HEAP_BASE + name_off as u64, EXE_BASE + exe.dyn_off));
        name_off += 1;
        // optional separate page for the names, filled from its end
        // three pages: the first library's name straddles the boundary between the first two, the
        // second library's name starts exactly at the start of the third, the others are packed
        // against the end of the third page (followed by unmapped memory)
        let names_page = HEAP_BASE + 0x10_0000;
        let mut page = vec![0u8; 0x3000];
        let mut page_end = 0x3000usize;
        for (li, (path, base, img)) in libs.iter().enumerate() {
            let nb = path.as_bytes();
            if cfg.names_at_end && li == 0 && nb.len() >= 4 && nb.len() < 0x800 {
                let at = 0x1000 - nb.len() / 2;
                page[at..at + nb.len()].copy_from_slice(nb);
                entries.push((*base, names_page + at as u64, *base + img.dyn_vaddr));
            } else if cfg.names_at_end && li == 1 && nb.len() < 0x800 {
                let at = 0x2000;
                page[at..at + nb.len()].copy_from_slice(nb);
                entries.push((*base, names_page + at as u64, *base + img.dyn_vaddr));
            } else if cfg.names_at_end && page_end > 0x2900 + nb.len() + 1 {
                let at = page_end - nb.len() - 1;
                page[at..at + nb.len()].copy_from_slice(nb);
                page[at + nb.len()] = 0;
                page_end = at;
                entries.push((*base, names_page + at as u64, *base + img.dyn_vaddr));
            } else {
                heap[name_off..name_off + nb.len()].copy_from_slice(nb);
                heap[name_off + nb.len()] = 0;
                entries.push((*base, HEAP_BASE + name_off as u64, *base + img.dyn_vaddr));
                name_off += nb.len() + 1;
            }
        }
        if cfg.names_at_end && !libs.is_empty() {
            regions.push(RegionSpec { start: names_page, len: 0x3000, perms: "rw-p".into(), offset: 0, inode: 0, name: B(Vec::new()), deleted: false, content: Content::Bytes(B(page)) });
        }
        heap[0..4].copy_from_slice(&1i32.to_le_bytes());
        heap[8..16].copy_from_slice(&(HEAP_BASE + lm0 as u64).to_le_bytes());
        heap[16..24].copy_from_slice(&(EXE_BASE + exe.text_off + 0x80).to_le_bytes());
        heap[24..28].copy_from_slice(&0i32.to_le_bytes());
        heap[32..40].copy_from_slice(&(LIB_BASE - 0x100_0000).to_le_bytes());
        for (i, (addr, name, ld)) in entries.iter().enumerate() {
            let o = lm0 + i * 40;
            heap[o..o + 8].copy_from_slice(&addr.to_le_bytes());
            heap[o + 8..o + 16].copy_from_slice(&name.to_le_bytes());
            heap[o + 16..o + 24].copy_from_slice(&ld.to_le_bytes());
            let next = if i + 1 < n { HEAP_BASE + (lm0 + (i + 1) * 40) as u64 } else { 0 };
            let prev = if i > 0 { HEAP_BASE + (lm0 + (i - 1) * 40) as u64 } else { 0 };
            heap[o + 24..o + 32].copy_from_slice(&next.to_le_bytes());
            heap[o + 32..o + 40].copy_from_slice(&prev.to_le_bytes());
        }
    }

    if cfg.alt_chain && !libs.is_empty() {
        // second r_debug at HEAP_BASE + 0x1000 with a two-entry list
        let o = 0x1000usize;
        let lm = o + 0x40;
        let names = lm + 80;
        let n1 = b"/alt/first.so\0";
        let n2 = b"/alt/second.so\0";
        heap[names..names + n1.len()].copy_from_slice(n1);
        heap[names + 32..names + 32 + n2.len()].copy_from_slice(n2);
        heap[o..o + 4].copy_from_slice(&2i32.to_le_bytes());
        heap[o + 8..o + 16].copy_from_slice(&(HEAP_BASE + lm as u64).to_le_bytes());
        heap[o + 16..o + 24].copy_from_slice(&0x1111_2222u64.to_le_bytes());
        heap[o + 32..o + 40].copy_from_slice(&0x3333_4444u64.to_le_bytes());
        for i in 0..2usize {
            let e = lm + i * 40;
            heap[e..e + 8].copy_from_slice(&(0x7000_0000u64 + i as u64 * 0x10000).to_le_bytes());
            heap[e + 8..e + 16].copy_from_slice(&(HEAP_BASE + (names + i * 32) as u64).to_le_bytes());
            heap[e + 16..e + 24].copy_from_slice(&(0x7000_0e00u64 + i as u64 * 0x10000).to_le_bytes());
            let next = if i == 0 { HEAP_BASE + (lm + 40) as u64 } else { 0 };
            heap[e + 24..e + 32].copy_from_slice(&next.to_le_bytes());
        }
    }

    // ---- exe
    {
        let mut mem = exe.file.clone();
        if let Some(o) = exe.dt_debug_val_off {
            let v = if cfg.link_map { HEAP_BASE } else { 0 };
            mem[o as usize..o as usize + 8].copy_from_slice(&v.to_le_bytes());
        }
        if let Some(o) = exe.dt_strtab_val_off {
            let v = EXE_BASE + exe.dynstr_vaddr;
            mem[o as usize..o as usize + 8].copy_from_slice(&v.to_le_bytes());
        }
        elf_regions(cfg.exe_name, EXE_BASE, &exe, 1001, &mem, &mut regions);
        files.push(FileSpec {
            path: B::s(cfg.exe_name),
            content: B(exe.file.clone()),
            mode: 0o100755,
        });
        modules.push(Module {
            path: cfg.exe_name.to_string(),
            base: EXE_BASE,
            image: exe.clone(),
        });
    }
    regions.push(RegionSpec {
        start: HEAP_BASE,
        len: heap_len,
        perms: "rw-p".into(),
        offset: 0,
        inode: 0,
        name: B::s("[heap]"),
        deleted: false,
        content: Content::Bytes(B(heap)),
    });

    for (i, (path, base, img)) in libs.into_iter().enumerate() {
        let mut mem = img.file.clone();
        if let Some(o) = img.dt_strtab_val_off {
            // ld.so relocates d_ptr entries of loaded objects
            let v = base + img.dynstr_vaddr;
            mem[o as usize..o as usize + 8].copy_from_slice(&v.to_le_bytes());
        }
        if let Some(o) = img.dt_debug_val_off {
            let v = HEAP_BASE + 0x1000;
            mem[o as usize..o as usize + 8].copy_from_slice(&v.to_le_bytes());
        }
        elf_regions(&path, base, &img, 2000 + i as u64, &mem, &mut regions);
        files.push(FileSpec {
            path: B::s(&path),
            content: B(img.file.clone()),
            mode: 0o100644,
        });
        modules.push(Module {
            path,
            base,
            image: img,
        });
    }

    // ---- threads and stacks
    let mut threads = Vec::new();
    let mut stacks = Vec::new();
    let text_lo = EXE_BASE + exe.text_off;
    let text_len = exe.text_len;
    for i in 0..cfg.nthreads {
        let tid = tid_of(i);
        let pages = r.range(cfg.stack_pages_min, cfg.stack_pages_max);
        let len = pages * 0x1000;
        let (start, name) = if i == 0 {
            (MAIN_STACK_TOP - len, B::s("[stack]"))
        } else {
            (STACKS_BASE + i as u64 * 0x100_0000, B(Vec::new()))
        };
        if i != 0 {
            regions.push(RegionSpec {
                start: start - 0x1000,
                len: 0x1000,
                perms: "---p".into(),
                offset: 0,
                inode: 0,
                name: B(Vec::new()),
                deleted: false,
                content: Content::Zero,
            });
        }
        regions.push(RegionSpec {
            start,
            len,
            perms: "rw-p".into(),
            offset: 0,
            inode: 0,
            name,
            deleted: false,
            content: Content::Pattern(mix64(tid as u64, 0x57ac)),
        });
        stacks.push((tid, start, len));
        // sp somewhere in the upper half, 16-byte aligned by default
        let sp = start + len - 0x100 - (r.below(len / 2 / 16) * 16);
        let ip = text_lo + 0x100 + r.below(text_len - 0x200);
        threads.push(ThreadSpec {
            tid,
            comm: B::s(&format!("thr-{}", i)),
            regs: unique_regs(tid, sp, ip),
            fp: B(unique_fp(tid)),
            dregs: unique_dregs(tid),
            program: Program::Parked,
            foreign_tracer: false,
            zombie: false,
            stop_latency_ns: 0,
            comm_fault: None,
            blocked_until_ns: 0,
            compat32: false,
        });
    }

    // ---- vvar / vdso / vsyscall
    regions.push(RegionSpec {
        start: VVAR_BASE,
        len: 0x4000,
        perms: "r--p".into(),
        offset: 0,
        inode: 0,
        name: B::s("[vvar]"),
        deleted: false,
        content: Content::Zero,
    });
    let vdso_base = VVAR_BASE + 0x4000;
    {
        let spec = ElfSpec {
            build_id: Some(r.bytes(20)),
            note_in_phdr: true,
            soname: Some("linux-vdso.so.1".into()),
            sections: true,
            text_pages: 1,
            text_seed: r.next(),
            dt_debug: false,
            dyn_pad: 0,
            with_pt_phdr: false,
            sections_at_end: false,
        rodata_before_text: false,
        data_gap_pages: 0,
        link_base: 0,
        text_sec_skip: 0, moved_tables: false, force_dyn: false, note_name_last: false, small_align: false,
        };
        let img = elfgen::build(&spec);
        regions.push(RegionSpec {
            start: vdso_base,
            len: img.file.len() as u64,
            perms: "r-xp".into(),
            offset: 0,
            inode: 0,
            name: B::s("[vdso]"),
            deleted: false,
            content: Content::Bytes(B(img.file.clone())),
        });
    }
    regions.push(RegionSpec {
        start: VSYSCALL,
        len: 0x1000,
        perms: "--xp".into(),
        offset: 0,
        inode: 0,
        name: B::s("[vsyscall]"),
        deleted: false,
        content: Content::Zero,
    });

    regions.sort_by_key(|r| r.start);

    // ---- fds
    let mut fds = Vec::new();
    for i in 0..cfg.nfds {
        let (target, mode) = match i % 5 {
            0 => ("/dev/pts/0".to_string(), 0o020620u32),
            1 if i % 10 == 6 => (format!("/var/log/\u{1F600}-{}.log", i), 0o100644),
            1 => (format!("/var/log/app-{}.log", i), 0o100644),
            2 => (format!("pipe:[{}]", 30000 + i), 0o010600),
            3 => (format!("socket:[{}]", 40000 + i), 0o140777),
            _ => ("anon_inode:[eventfd]".to_string(), 0o100600),
        };
        fds.push(FdSpec {
            fd: i as u32,
            target: B::s(&target),
            mode,
            stat_fails: false,
            link_fails: false,
        });
    }

    let auxv = vec![
        (AT_SYSINFO_EHDR, vdso_base),
        (AT_PAGESZ, 4096),
        (AT_PHDR, EXE_BASE + exe.phoff),
        (AT_PHNUM, exe.phnum),
        (AT_BASE, LIB_BASE - 0x100_0000),
        (AT_ENTRY, EXE_BASE + exe.entry_off),
        (23, 0),
    ];

    let mut cpuinfo = String::new();
    let ncpu = 1 + r.below(4);
    for c in 0..ncpu {
        cpuinfo.push_str(&format!(
            "processor\t: {}\nvendor_id\t: GenuineIntel\ncpu family\t: 6\nmodel\t\t: 85\nmodel name\t: Sim CPU\nstepping\t: 7\nflags\t\t: fpu vme\n\n",
            c
        ));
    }

    let world = World {
        pid: PID,
        ppid: 0x4000_0001,
        threads,
        regions,
        plants: Vec::new(),
        // the vsyscall page is execute-only for everybody: no remote read reaches it
        no_remote: vec![(VSYSCALL, 0x1000)],
        files,
        fds,
        auxv,
        auxv_terminated: true,
        auxv_cut: 0,
        auxv_missing: false,
        cmdline: B(b"/usr/bin/app\0--flag\0value\0".to_vec()),
        environ: B(b"HOME=/root\0PATH=/usr/bin\0".to_vec()),
        limits: B(b"Limit                     Soft Limit           Hard Limit           Units     \nMax cpu time              unlimited            unlimited            seconds   \nMax open files            1024                 4096                 files     \n".to_vec()),
        cpuinfo: Some(B(cpuinfo.into_bytes())),
        lsb_release: Some(B(b"DISTRIB_ID=SimOS\nDISTRIB_RELEASE=1.0\n".to_vec())),
        os_release: Some(B(b"NAME=\"SimOS\"\nVERSION_ID=1\n".to_vec())),
        uname: vec!["Linux".into(), "6.1.0-sim".into(), "#1 SMP Sim".into(), "x86_64".into()],
        uname_fails: false,
        fd_dir_fails: false,
        status_extra: B(Vec::new()),
    };
    Built {
        world,
        modules,
        stacks,
        heap: (HEAP_BASE, heap_len),
        vdso_base,
        anon_next: ANON_BASE,
    }
}

impl Built {
    /// add an anonymous rw region with pattern content; returns its start
    pub fn add_anon(&mut self, len: u64, perms: &str, seed: u64, gap_pages: u64) -> u64 {
        let start = self.anon_next + gap_pages * 0x1000;
        self.world.regions.push(RegionSpec {
            start,
            len,
            perms: perms.into(),
            offset: 0,
            inode: 0,
            name: B(Vec::new()),
            deleted: false,
            content: Content::Pattern(seed),
        });
        self.anon_next = start + len;
        self.world.regions.sort_by_key(|r| r.start);
        start
    }

    /// Something mapped below the main executable (a fixed low mapping, MAP_32BIT memory, a
    /// program started through an explicit loader). The writer moves the module that holds the
    /// entry point to the front of its mapping list, which is then no longer in address order.
    pub fn add_low(&mut self, len: u64, perms: &str, seed: u64, slot: u64) -> u64 {
        let start = 0x1000_0000 + slot * 0x100_0000;
        self.world.regions.push(RegionSpec { start, len, perms: perms.into(), offset: 0, inode: 0, name: B(Vec::new()), deleted: false, content: Content::Pattern(seed) });
        self.world.regions.sort_by_key(|r| r.start);
        start
    }
}

/// Make the name the linker list holds for the first library invalid UTF-8 (a library loaded
/// through an oddly named symlink: the mapped path in /proc/pid/maps stays as it is).
pub fn spoil_first_lib_name(b: &mut Built, cfg: &WorldCfg) -> bool {
    if !cfg.link_map || cfg.nlibs == 0 || cfg.names_at_end {
        return false;
    }
    let addr = HEAP_BASE + 0x40 + (1 + cfg.nlibs as u64) * 40 + 1;
    b.world.plants.push((addr, u64::from_le_bytes(*b"/usr/\xff\xfe/")));
    true
}

/// The name pointer of the last entry of the linker list is non-null but unreadable (the target
/// scribbled over it before crashing).
pub fn spoil_last_lib_name_pointer(b: &mut Built, cfg: &WorldCfg) -> bool {
    if !cfg.link_map || cfg.nlibs == 0 {
        return false;
    }
    let entry = HEAP_BASE + 0x40 + cfg.nlibs as u64 * 40;
    b.world.plants.push((entry + 8, 0x10));
    true
}

pub fn default_dest() -> DestPlan {
    DestPlan {
        start: 0,
        pre_len: 0,
        origin: 0,
        fx: Vec::new(),
        short_entry: 0,
    }
}

pub fn simple_dump_scenario(prop: &str, seed: u64, profile: &str, b: Built, opts: Opts) -> Scenario {
    Scenario {
        prop: prop.to_string(),
        seed,
        profile: profile.to_string(),
        world: b.world,
        workload: Workload::Dump(DumpPlan {
            opts,
            dests: vec![default_dest()],
            between: Vec::new(),
        }),
        events: Vec::new(),
        faults: Vec::new(),
        sched: Sched::default(),
        tags: Vec::new(),
    }
}
