//! Destination seam: a fault-injecting, recording `Write + Seek`.

use crate::interpose::kernel_do;
use crate::rng::mix64;
use crate::scenario::{CallKind, DestFx, DestPlan};
use std::io::{self, Seek, SeekFrom, Write};

#[derive(Clone, Debug, PartialEq)]
pub enum OpKind {
    Write,
    Seek,
    Flush,
}

#[derive(Clone, Debug)]
pub struct DestOp {
    pub kind: OpKind,
    /// write: requested length; seek: resulting/target position
    pub arg: u64,
    pub pos_before: u64,
    /// write: bytes accepted; seek: new position; negative = error
    pub result: i64,
    pub fx: Option<DestFx>,
}

pub struct SimDest {
    pub data: Vec<u8>,
    pub pre: Vec<u8>,
    /// absolute position, as the writer sees it
    pub pos: u64,
    /// start position relative to `origin` (index into `data` / `pre`)
    pub start: u64,
    /// absolute offset of `data[0]`
    pub origin: u64,
    /// accepted writes that touched bytes below `origin`: (absolute position, length)
    pub below_origin: Vec<(u64, u64)>,
    pub ops: Vec<DestOp>,
    pub plan: DestPlan,
    pub opn: u32,
    /// index of the op at which the simulated crash happened
    pub crashed_at: Option<u32>,
    /// (op index, position, bytes) for every accepted write: snapshots are rebuilt from these
    pub patches: Vec<(u32, u64, Vec<u8>)>,
    pub fx_fired: Vec<(u32, DestFx)>,
}

pub fn pre_content(len: u64, salt: u64) -> Vec<u8> {
    (0..len).map(|i| (mix64(i, salt) & 0xff) as u8 | 0x80).collect()
}

impl SimDest {
    pub fn new(plan: &DestPlan, salt: u64) -> SimDest {
        let pre = pre_content(plan.pre_len, salt);
        SimDest {
            data: pre.clone(),
            pre,
            pos: plan.start.max(plan.origin),
            start: plan.start.max(plan.origin) - plan.origin,
            origin: plan.origin,
            below_origin: Vec::new(),
            ops: Vec::new(),
            plan: plan.clone(),
            opn: 0,
            crashed_at: None,
            patches: Vec::new(),
            fx_fired: Vec::new(),
        }
    }

    fn next_fx(&mut self, kind: CallKind) -> (u32, Option<DestFx>) {
        let n = self.opn;
        self.opn += 1;
        kernel_do(|k| {
            let _ = k.enter(kind, b"dest");
        });
        if self.crashed_at.is_some() {
            return (n, Some(DestFx::Crash));
        }
        let fx = self.plan.fx.iter().find(|(i, _)| *i == n).map(|(_, f)| f.clone());
        if let Some(f) = &fx {
            self.fx_fired.push((n, f.clone()));
            if *f == DestFx::Crash {
                self.crashed_at = Some(n);
            }
        }
        (n, fx)
    }

    /// destination content after the first `nops` operations
    pub fn snapshot_after(&self, nops: u32) -> Vec<u8> {
        let mut d = self.pre.clone();
        for (op, pos, bytes) in &self.patches {
            if *op >= nops {
                break;
            }
            let end = *pos as usize + bytes.len();
            if d.len() < end {
                d.resize(end, 0);
            }
            d[*pos as usize..end].copy_from_slice(bytes);
        }
        d
    }
}

impl Write for SimDest {
    fn write(&mut self, buf: &[u8]) -> io::Result<usize> {
        let (n, fx) = self.next_fx(CallKind::DestWrite);
        let pos_before = self.pos;
        let mut accept = buf.len();
        let res: io::Result<usize> = match &fx {
            Some(DestFx::Crash) => Err(io::Error::from_raw_os_error(5)),
            Some(DestFx::Error(e)) => Err(io::Error::from_raw_os_error(*e)),
            Some(DestFx::Interrupted) => Err(io::Error::new(io::ErrorKind::Interrupted, "sim EINTR")),
            Some(DestFx::Panic) => {
                self.ops.push(DestOp {
                    kind: OpKind::Write,
                    arg: buf.len() as u64,
                    pos_before,
                    result: -999,
                    fx: fx.clone(),
                });
                panic!("simdest: planned destination panic at op {}", n);
            }
            Some(DestFx::Short(k)) => {
                accept = accept.min((*k as usize).max(1));
                Ok(accept)
            }
            Some(DestFx::Zero) => {
                accept = 0;
                Ok(0)
            }
            None => {
                if self.plan.short_entry > 0 && (buf.len() == 12 || buf.len() == 8 || buf.len() == 4 || buf.len() == 2) && (self.plan.short_entry as usize) < buf.len() {
                    accept = self.plan.short_entry as usize;
                    self.fx_fired.push((n, DestFx::Short(self.plan.short_entry)));
                }
                Ok(accept)
            }
        };
        if res.is_ok() && accept > 0 {
            kernel_do(|k| k.account_transfer(accept as u64));
            if self.pos < self.origin {
                // outside the recorded window (possible only when the window does not begin at 0)
                self.below_origin.push((self.pos, accept as u64));
            } else {
                let rel = (self.pos - self.origin) as usize;
                let end = rel + accept;
                if end > (1 << 28) && self.origin != 0 {
                    panic!("simdest: write of {} bytes at {} is far outside the recorded window", accept, self.pos);
                }
                if self.data.len() < end {
                    self.data.resize(end, 0);
                }
                self.data[rel..end].copy_from_slice(&buf[..accept]);
                self.patches.push((n, rel as u64, buf[..accept].to_vec()));
            }
            self.pos += accept as u64;
        }
        self.ops.push(DestOp {
            kind: OpKind::Write,
            arg: buf.len() as u64,
            pos_before,
            result: match &res {
                Ok(n) => *n as i64,
                Err(_) => -1,
            },
            fx,
        });
        res
    }

    fn flush(&mut self) -> io::Result<()> {
        Ok(())
    }
}

impl Seek for SimDest {
    fn seek(&mut self, to: SeekFrom) -> io::Result<u64> {
        let (n, fx) = self.next_fx(CallKind::DestSeek);
        let pos_before = self.pos;
        let res: io::Result<u64> = match &fx {
            Some(DestFx::Crash) => Err(io::Error::from_raw_os_error(5)),
            Some(DestFx::Error(e)) => Err(io::Error::from_raw_os_error(*e)),
            Some(DestFx::Interrupted) => Err(io::Error::new(io::ErrorKind::Interrupted, "sim EINTR")),
            Some(DestFx::Panic) => {
                self.ops.push(DestOp {
                    kind: OpKind::Seek,
                    arg: 0,
                    pos_before,
                    result: -999,
                    fx: fx.clone(),
                });
                panic!("simdest: planned destination panic at op {}", n);
            }
            _ => {
                let np: i128 = match to {
                    SeekFrom::Start(p) => p as i128,
                    SeekFrom::Current(d) => self.pos as i128 + d as i128,
                    SeekFrom::End(d) => self.origin as i128 + self.data.len() as i128 + d as i128,
                };
                if np < 0 || np > u64::MAX as i128 {
                    Err(io::Error::from_raw_os_error(22))
                } else {
                    self.pos = np as u64;
                    Ok(self.pos)
                }
            }
        };
        self.ops.push(DestOp {
            kind: OpKind::Seek,
            arg: match to {
                SeekFrom::Start(p) => p,
                SeekFrom::Current(d) => d as u64,
                SeekFrom::End(d) => d as u64,
            },
            pos_before,
            result: match &res {
                Ok(p) => *p as i64,
                Err(_) => -1,
            },
            fx,
        });
        res
    }
}
