//! Synthetic 64-bit little-endian ELF images (flat layout: p_vaddr == p_offset).

use crate::rng::Rng;

pub const PT_LOAD: u32 = 1;
pub const PT_DYNAMIC: u32 = 2;
pub const PT_NOTE: u32 = 4;
pub const PT_PHDR: u32 = 6;
pub const DT_NULL: u64 = 0;
pub const DT_STRTAB: u64 = 5;
pub const DT_STRSZ: u64 = 10;
pub const DT_SONAME: u64 = 14;
pub const DT_DEBUG: u64 = 21;

#[derive(Clone, Debug, Default)]
pub struct ElfSpec {
    pub build_id: Option<Vec<u8>>,
    /// note reachable through PT_NOTE (otherwise only through the section table)
    pub note_in_phdr: bool,
    pub soname: Option<String>,
    pub sections: bool,
    pub text_pages: u64,
    pub text_seed: u64,
    pub dt_debug: bool,
    /// extra dynamic entries before the interesting ones
    pub dyn_pad: u32,
    pub with_pt_phdr: bool,
    /// section table and section-name strings live in an extra page at the end of the file,
    /// which the loader does not map
    pub sections_at_end: bool,
    /// an allocated, non-executable PROGBITS section (.rodata) precedes .text in the section table
    pub rodata_before_text: bool,
    /// the data segment is loaded this many pages above where a flat layout would put it; the
    /// loader leaves an inaccessible reserved gap in between
    pub data_gap_pages: u64,
    /// link-time base address (non-PIE executables): every virtual address in the image is
    /// link_base + offset, and the image must be mapped exactly there
    pub link_base: u64,
    /// the .text *section* starts this many bytes into the text segment (mid-page) ...
    pub text_sec_skip: u64,
    /// the build-id note and the dynamic string table live in an extra loadable segment that a
    /// post-link tool (patchelf and the like) appended: at the end of the file, but at a virtual
    /// address far from its file offset
    pub moved_tables: bool,
    /// the image is a shared object (ET_DYN) even though it is linked at a non-zero base
    /// (prelink, -Ttext-segment, --image-base)
    pub force_dyn: bool,
    /// the name of the build-id note section is the last string of the section name table (what
    /// `objcopy --add-section .note.gnu.build-id=...` produces: the name ends exactly where the table ends)
    pub note_name_last: bool,
    /// linked without page alignment of the segments (`ld -n`): the first loadable segment starts
    /// right behind the program headers, at a virtual address that is not a multiple of the page
    /// size, with an alignment of 8; the kernel maps the file from the start of that page all the same
    pub small_align: bool,
}

#[derive(Clone, Debug)]
pub struct ElfImage {
    pub file: Vec<u8>,
    /// number of bytes the loader maps (file may be longer)
    pub mapped_len: u64,
    /// virtual address (relative to the load base) of the data page and of the dynamic section
    pub data_vaddr: u64,
    pub dyn_vaddr: u64,
    pub phoff: u64,
    pub phnum: u64,
    pub text_off: u64,
    pub text_len: u64,
    pub data_off: u64,
    pub dyn_off: u64,
    pub dyn_len: u64,
    /// offset of the DT_DEBUG d_val within the file (if any)
    pub dt_debug_val_off: Option<u64>,
    /// offset of the DT_STRTAB d_val within the file
    pub dt_strtab_val_off: Option<u64>,
    pub dynstr_off: u64,
    /// free area in the data page usable for r_debug / link_map (offset, len)
    pub scratch_off: u64,
    pub scratch_len: u64,
    pub entry_off: u64,
    /// (file offset, virtual address relative to the load base, length) of the appended segment
    pub moved: Option<(u64, u64, u64)>,
    /// virtual address (relative to the load base) of the dynamic string table
    pub dynstr_vaddr: u64,
    pub spec: ElfSpec,
}

fn put16(v: &mut [u8], off: usize, x: u16) {
    v[off..off + 2].copy_from_slice(&x.to_le_bytes());
}
fn put32(v: &mut [u8], off: usize, x: u32) {
    v[off..off + 4].copy_from_slice(&x.to_le_bytes());
}
fn put64(v: &mut [u8], off: usize, x: u64) {
    v[off..off + 8].copy_from_slice(&x.to_le_bytes());
}

fn phdr(v: &mut [u8], off: usize, ty: u32, flags: u32, p_off: u64, vaddr: u64, filesz: u64, align: u64) {
    put32(v, off, ty);
    put32(v, off + 4, flags);
    put64(v, off + 8, p_off);
    put64(v, off + 16, vaddr);
    put64(v, off + 24, vaddr); // paddr
    put64(v, off + 32, filesz);
    put64(v, off + 40, filesz); // memsz
    put64(v, off + 48, align);
}

#[allow(clippy::too_many_arguments)]
fn shdr(v: &mut [u8], off: usize, name: u32, ty: u32, flags: u64, addr: u64, size: u64, link: u32, align: u64, entsize: u64) {
    shdr2(v, off, name, ty, flags, addr, addr, size, link, align, entsize)
}

#[allow(clippy::too_many_arguments)]
fn shdr2(v: &mut [u8], off: usize, name: u32, ty: u32, flags: u64, addr: u64, file_off: u64, size: u64, link: u32, align: u64, entsize: u64) {
    put32(v, off, name);
    put32(v, off + 4, ty);
    put64(v, off + 8, flags);
    put64(v, off + 16, addr);
    put64(v, off + 24, file_off);
    put64(v, off + 32, size);
    put32(v, off + 40, link);
    put32(v, off + 44, 0);
    put64(v, off + 48, align);
    put64(v, off + 56, entsize);
}

pub fn build(spec: &ElfSpec) -> ElfImage {
    let text_pages = spec.text_pages.max(1);
    let text_off = 0x1000u64;
    let text_len = text_pages * 0x1000;
    let data_off = text_off + text_len;
    let gap = spec.data_gap_pages * 0x1000;
    let mapped = data_off + gap + 0x1000;
    let file_mapped = data_off + 0x1000;
    let total = if spec.sections && spec.sections_at_end { file_mapped + 0x1000 } else { file_mapped };
    // appended segment: file offset at the (page-aligned) end of the file, virtual address directly
    // above everything else (where such tools put it); the two differ whenever the image has a
    // reserved gap or an unmapped section page, and always by the link base
    let moved: Option<(u64, u64, u64)> = if spec.moved_tables { Some((total + if total == mapped { 0x1000 } else { 0 }, mapped, 0x1000)) } else { None };
    let (total, mapped) = match moved {
        Some((mo, mv, ml)) => (mo + ml, mv + ml),
        None => (total, mapped),
    };
    // where the note and the string table sit: (file offset, vaddr - file offset)
    let (tab_off, tab_dv) = match moved {
        Some((mo, mv, _)) => (mo, mv.wrapping_sub(mo)),
        None => (0, 0),
    };
    let mut f = vec![0u8; total as usize];

    // text
    {
        let mut r = Rng::new(spec.text_seed ^ 0x7e87);
        let t = r.bytes(text_len as usize);
        f[text_off as usize..(text_off + text_len) as usize].copy_from_slice(&t);
    }

    // note at 0x200
    let note_off = tab_off + 0x200u64;
    let mut note_len = 0u64;
    if let Some(id) = &spec.build_id {
        let o = note_off as usize;
        put32(&mut f, o, 4);
        put32(&mut f, o + 4, id.len() as u32);
        put32(&mut f, o + 8, 3);
        f[o + 12..o + 16].copy_from_slice(b"GNU\0");
        f[o + 16..o + 16 + id.len()].copy_from_slice(id);
        note_len = 16 + ((id.len() as u64 + 3) & !3);
    }

    // dynstr at 0x300
    let dynstr_off = tab_off + 0x300u64;
    let mut dynstr = vec![0u8];
    let mut soname_idx = 0u64;
    if let Some(s) = &spec.soname {
        soname_idx = dynstr.len() as u64;
        dynstr.extend_from_slice(s.as_bytes());
        dynstr.push(0);
    }
    dynstr.extend_from_slice(b"pad\0");
    f[dynstr_off as usize..dynstr_off as usize + dynstr.len()].copy_from_slice(&dynstr);
    let dynstr_len = dynstr.len() as u64;

    // dynamic at data_off
    let dyn_off = data_off;
    let mut dynv: Vec<(u64, u64)> = Vec::new();
    for i in 0..spec.dyn_pad {
        dynv.push((0x6fff_0000 + i as u64, 0));
    }
    if spec.soname.is_some() {
        dynv.push((DT_SONAME, soname_idx));
    }
    let strtab_idx = dynv.len();
    dynv.push((DT_STRTAB, spec.link_base.wrapping_add(dynstr_off).wrapping_add(tab_dv)));
    dynv.push((DT_STRSZ, dynstr_len));
    let mut debug_idx = None;
    if spec.dt_debug {
        debug_idx = Some(dynv.len());
        dynv.push((DT_DEBUG, 0));
    }
    dynv.push((DT_NULL, 0));
    for (i, (t, val)) in dynv.iter().enumerate() {
        put64(&mut f, dyn_off as usize + i * 16, *t);
        put64(&mut f, dyn_off as usize + i * 16 + 8, *val);
    }
    let dyn_len = dynv.len() as u64 * 16;
    let scratch_off = (dyn_off + dyn_len + 15) & !15;
    let scratch_len = data_off + 0x1000 - scratch_off;

    // program headers at 0x40
    let phoff = 0x40u64;
    // (type, flags, file offset, size, align, vaddr - offset)
    let mut ph: Vec<(u32, u32, u64, u64, u64, u64)> = Vec::new();
    if spec.with_pt_phdr {
        ph.push((PT_PHDR, 4, phoff, 0, 8, 0));
    }
    ph.push((PT_LOAD, 4, 0, 0x1000, 0x1000, 0));
    ph.push((PT_LOAD, 5, text_off, text_len, 0x1000, 0));
    ph.push((PT_LOAD, 6, data_off, 0x1000, 0x1000, gap));
    if let Some((mo, _mv, ml)) = moved {
        ph.push((PT_LOAD, 4, mo, ml, 0x1000, tab_dv));
    }
    if spec.build_id.is_some() && spec.note_in_phdr {
        ph.push((PT_NOTE, 4, note_off, note_len, 4, tab_dv));
    }
    ph.push((PT_DYNAMIC, 6, dyn_off, dyn_len, 8, gap));
    if spec.small_align && spec.with_pt_phdr {
        // the program headers are not part of a segment in such an image
        ph.remove(0);
    }
    let phnum = ph.len() as u64;
    if spec.with_pt_phdr && !spec.small_align {
        ph[0].3 = phnum * 56;
    }
    if spec.small_align {
        let skip = phoff + phnum * 56;
        if let Some(h) = ph.iter_mut().find(|h| h.0 == PT_LOAD) {
            h.2 = skip;
            h.3 = 0x1000 - skip;
            h.4 = 8;
        }
    }
    let lb = spec.link_base;
    for (i, (ty, fl, o, sz, al, dv)) in ph.iter().enumerate() {
        phdr(&mut f, phoff as usize + i * 56, *ty, *fl, *o, lb.wrapping_add(*o).wrapping_add(*dv), *sz, *al);
    }

    // sections
    let (shstr_off, shoff) = if spec.sections_at_end { (file_mapped + 0x380, file_mapped + 0x400) } else { (0x380u64, 0x400u64) };
    let mut shnum = 0u16;
    if spec.sections {
        let names: &[u8] = if spec.note_name_last { b"\0.text\0.dynstr\0.shstrtab\0.dynamic\0.note.gnu.build-id\0" } else { b"\0.text\0.note.gnu.build-id\0.shstrtab\0.dynamic\0.dynstr\0" };
        f[shstr_off as usize..shstr_off as usize + names.len()].copy_from_slice(names);
        // name offsets
        let n_text = 1u32;
        let (n_note, n_shstr, n_dynamic, n_dynstr) = if spec.note_name_last { (34u32, 15u32, 25u32, 7u32) } else { (7u32, 26u32, 36u32, 45u32) };
        let mut i = 0usize;
        let base = shoff as usize;
        shdr(&mut f, base + i * 64, 0, 0, 0, 0, 0, 0, 0, 0);
        i += 1;
        if spec.rodata_before_text {
            // reuses the name ".text" minus the dot-t: points at "text" inside the string table; the
            // name is irrelevant, type/flags are what matters: PROGBITS, ALLOC, not EXECINSTR
            shdr2(&mut f, base + i * 64, n_text + 1, 1, 2, lb + 0x300, 0x300, 0x40, 0, 1, 0);
            i += 1;
        }
        let skip = spec.text_sec_skip.min(text_len - 1);
        shdr2(&mut f, base + i * 64, n_text, 1, 2 | 4, lb + text_off + skip, text_off + skip, text_len - skip, 0, 16, 0);
        i += 1;
        if spec.build_id.is_some() {
            shdr2(&mut f, base + i * 64, n_note, 7, 2, lb.wrapping_add(note_off).wrapping_add(tab_dv), note_off, note_len, 0, 4, 0);
            i += 1;
        }
        let shstr_idx = i;
        shdr(&mut f, base + i * 64, n_shstr, 3, 0, shstr_off, names.len() as u64, 0, 1, 0);
        i += 1;
        let dynstr_sec_idx = i + 1;
        shdr2(&mut f, base + i * 64, n_dynamic, 6, 3, lb + dyn_off + gap, dyn_off, dyn_len, dynstr_sec_idx as u32, 8, 16);
        i += 1;
        shdr2(&mut f, base + i * 64, n_dynstr, 3, 2, lb.wrapping_add(dynstr_off).wrapping_add(tab_dv), dynstr_off, dynstr_len, 0, 1, 0);
        i += 1;
        shnum = i as u16;
        put16(&mut f, 62, shstr_idx as u16);
    }

    // ELF header
    f[0..4].copy_from_slice(b"\x7fELF");
    f[4] = 2; // 64-bit
    f[5] = 1; // LE
    f[6] = 1;
    put16(&mut f, 16, if spec.link_base != 0 && !spec.force_dyn { 2 } else { 3 }); // ET_EXEC / ET_DYN
    put16(&mut f, 18, 62); // x86_64
    put32(&mut f, 20, 1);
    let entry_off = text_off + 0x10;
    put64(&mut f, 24, spec.link_base + entry_off);
    put64(&mut f, 32, phoff);
    put64(&mut f, 40, if spec.sections { shoff } else { 0 });
    put32(&mut f, 48, 0);
    put16(&mut f, 52, 64);
    put16(&mut f, 54, 56);
    put16(&mut f, 56, phnum as u16);
    put16(&mut f, 58, 64);
    put16(&mut f, 60, shnum);

    ElfImage {
        file: f,
        mapped_len: mapped,
        data_vaddr: data_off + gap,
        dyn_vaddr: dyn_off + gap,
        phoff,
        phnum,
        text_off,
        text_len,
        data_off,
        dyn_off,
        dyn_len,
        dt_debug_val_off: debug_idx.map(|i| dyn_off + i as u64 * 16 + 8),
        dt_strtab_val_off: Some(dyn_off + strtab_idx as u64 * 16 + 8),
        dynstr_off,
        scratch_off,
        scratch_len,
        entry_off,
        moved,
        dynstr_vaddr: dynstr_off.wrapping_add(tab_dv),
        spec: spec.clone(),
    }
}

/// The id the writer is specified to derive when there is no note: XOR-fold of the first
/// min(4096, size) bytes of the first executable PROGBITS section into 16 bytes.
pub fn text_fold(text: &[u8]) -> Vec<u8> {
    let mut out = vec![0u8; 16];
    for (i, b) in text.iter().take(4096).enumerate() {
        out[i % 16] ^= *b;
    }
    out
}
