mod dest;
mod elfgen;
mod gen;
mod interpose;
mod kernel;
mod rng;
mod run;
mod scenario;
mod syscalls;
mod workloads;

fn main() {
    run::install_panic_hook();
    let args: Vec<String> = std::env::args().collect();
    if args.get(1).map(|s| s.as_str()) == Some("spike") {
        let mut r = rng::Rng::new(1);
        let b = gen::build_world(&mut r, &gen::WorldCfg::default());
        let opts = scenario::Opts { blamed: gen::PID, ..Default::default() };
        let sc = gen::simple_dump_scenario("C01", 1, "spike", b, opts);
        let t0 = std::time::Instant::now();
        let n = 200;
        let mut last = None;
        for _ in 0..n {
            let res = run::run(&sc, &run::RunOpts { trace: false, ..Default::default() });
            last = Some(res);
        }
        let dt = t0.elapsed();
        let res = run::run(&sc, &run::RunOpts { trace: true, ..Default::default() });
        for l in res.kernel.trace.as_ref().unwrap().iter().take(400) {
            println!("{}", l);
        }
        let res = last.unwrap();
        let d = &res.dumps[0];
        match &d.result {
            run::DumpRes::Ok(v) => println!("OK {} bytes, dest {} bytes", v.len(), d.dest.data.len()),
            run::DumpRes::Err(e) => println!("ERR {}", e),
            run::DumpRes::Panic(p) => println!("PANIC {}", p),
        }
        println!("calls {} hash {:x} per-run {:?}", res.kernel.seq, res.kernel.trace_hash, dt / n);
        if let run::DumpRes::Ok(v) = &d.result {
            std::fs::write("/tmp/spike.dmp", v).unwrap();
        }
        println!("{}", serde_json::to_string(&sc).unwrap().len());
    }
}
