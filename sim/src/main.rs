mod decode;
mod dest;
mod driver;
mod elfgen;
mod evidence;
mod gen;
mod interpose;
mod kernel;
mod oracle;
mod profiles;
mod rng;
mod run;
mod scenario;
mod shrink;
mod syscalls;
mod workloads;

fn usage() -> i32 {
    eprintln!("usage: mdsim check <ID> <quick|thorough> | replay <file> | worker ... | one <ID> <seed> <idx> | selftest | show <ID> <idx>");
    2
}

fn main() {
    run::install_panic_hook();
    if let Err(e) = decode::selfcheck_sizes() {
        eprintln!("HARNESS-ERROR: {}", e);
        std::process::exit(2);
    }
    let a: Vec<String> = std::env::args().collect();
    let code = match a.get(1).map(|s| s.as_str()) {
        Some("check") if a.len() >= 3 => {
            let tier = std::env::var("VERIF_TIER").ok().or_else(|| a.get(3).cloned()).unwrap_or_else(|| "quick".into());
            driver::check(&a[2], &tier)
        }
        Some("worker") if a.len() >= 10 => driver::worker(
            &a[2],
            a[3].parse().unwrap(),
            a[4].parse().unwrap(),
            a[5].parse().unwrap(),
            a[6].parse().unwrap(),
            &a[7],
            a[8].parse().unwrap(),
            a[9] == "1",
        ),
        Some("replay") if a.len() >= 3 => driver::replay(&a[2]),
        Some("one") if a.len() >= 5 => driver::one(&a[2], a[3].parse().unwrap(), a[4].parse().unwrap()),
        Some("show") if a.len() >= 4 => {
            let sc = profiles::generate(&a[2], driver::verif_seed(), a[3].parse().unwrap());
            println!("{}", serde_json::to_string_pretty(&sc).unwrap());
            0
        }
        _ => usage(),
    };
    std::process::exit(code);
}
