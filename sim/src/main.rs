mod conformance;
mod decode;
mod dest;
mod driver;
mod elfgen;
mod elfref;
mod evidence;
mod gen;
mod interpose;
mod kernel;
mod oracle;
mod profiles;
mod rng;
mod run;
mod scenario;
mod shrink;
mod syscalls;
mod workloads;

fn usage() -> i32 {
    eprintln!("usage: mdsim check <ID> <quick|thorough> | replay <file> | worker ... | one <ID> <seed> <idx> | selftest | show <ID> <idx>");
    2
}

fn main() {
    run::install_panic_hook();
    if let Err(e) = decode::selfcheck_sizes() {
        eprintln!("HARNESS-ERROR: {}", e);
        std::process::exit(2);
    }
    let a: Vec<String> = std::env::args().collect();
    let code = match a.get(1).map(|s| s.as_str()) {
        Some("check") if a.len() >= 3 => {
            // the tier named on the command line wins; VERIF_TIER only fills in when none is given
            let tier = a.get(3).cloned().or_else(|| std::env::var("VERIF_TIER").ok()).unwrap_or_else(|| "quick".into());
            std::env::set_var("VERIF_TIER", &tier);
            driver::check(&a[2], &tier)
        }
        Some("worker") if a.len() >= 10 => driver::worker(
            &a[2],
            a[3].parse().unwrap(),
            a[4].parse().unwrap(),
            a[5].parse().unwrap(),
            a[6].parse().unwrap(),
            &a[7],
            a[8].parse().unwrap(),
            a[9] == "1",
        ),
        Some("replay") if a.len() >= 3 => driver::replay_guarded(&a[2]),
        Some("replay-inner") if a.len() >= 3 => driver::replay(&a[2]),
        Some("selftest") => driver::selftest(),
        Some("conformance") => conformance::run(),
        Some("conformance-child") => conformance::child_zombie_leader(),
        Some("conformance-child-threads") => conformance::child_three_threads(),
        Some("determinism") => {
            let n: u64 = a.get(2).and_then(|s| s.parse().ok()).unwrap_or(2000);
            let props: Vec<String> = if a.len() > 3 { a[3..].to_vec() } else { driver::CLAIMED.iter().map(|s| s.to_string()).collect() };
            driver::determinism(&props, n)
        }
        Some("one") if a.len() >= 5 => driver::one(&a[2], a[3].parse().unwrap(), a[4].parse().unwrap()),
        Some("dbg19") => { debug_c19(a[2].parse().unwrap()); 0 }
        Some("show") if a.len() >= 4 => {
            let sc = profiles::generate(&a[2], driver::verif_seed(), a[3].parse().unwrap());
            println!("{}", serde_json::to_string_pretty(&sc).unwrap());
            0
        }
        _ => usage(),
    };
    std::process::exit(code);
}

#[allow(dead_code)]
pub fn debug_c19(idx: u64) {
    let sc = profiles::generate("C19", driver::verif_seed(), idx);
    let res = run::run(&sc, &run::RunOpts { keep_before: true, trace: true, ..Default::default() });
    let scenario::Workload::Dump(plan) = &sc.workload else { return };
    let d = &res.dumps[0];
    let mut kb = d.kernel_before.clone().unwrap();
    kb.trace = Some(Vec::new());
    let fresh = run::dump_on_kernel(kb, &sc.world, &plan.opts, &plan.dests[0], sc.seed);
    let a = d.kernel_after.trace.clone().unwrap();
    let b = fresh.kernel_after.trace.clone().unwrap();
    for i in 0..a.len().max(b.len()) {
        let x = a.get(i).cloned().unwrap_or_default();
        let y = b.get(i).cloned().unwrap_or_default();
        if x != y {
            println!("DIFF at {}:\n  {}\n  {}", i, x, y);
            for j in i.saturating_sub(5)..i { println!("  ctx {}", a[j]); }
            break;
        }
    }
    println!("hashes {:x} {:x} lens {} {}", d.kernel_after.trace_hash, fresh.kernel_after.trace_hash, a.len(), b.len());
}
