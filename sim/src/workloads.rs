//! Component-level workloads (remote reads, ELF identification, directory writer).

use crate::run::*;
use crate::scenario::*;

pub fn run_memread(_world: &World, _ops: &[MemReadOp]) -> Vec<MemReadOutcome> {
    Vec::new()
}
pub fn run_elfid(_world: &World, _p: &ElfIdPlan) -> ElfOutcome {
    ElfOutcome::default()
}
pub fn run_dirsection(p: &DirPlan, seed: u64) -> DirOutcome {
    DirOutcome {
        dest: crate::dest::SimDest::new(&p.dest, seed),
        steps: Vec::new(),
        panicked: None,
    }
}
