//! Component-level workloads (remote reads, ELF identification, directory writer).

use crate::dest::SimDest;
use crate::oracle::{v, Violation};
use crate::run::*;
use crate::scenario::*;
use minidump_writer::dir_section::DirSection;
use minidump_writer::mem_writer::{write_string_to_location, Buffer, MemoryArrayWriter, MemoryWriter};
use minidump_writer::minidump_format::{MDLocationDescriptor, MDRawDirectory};
use std::panic::{catch_unwind, AssertUnwindSafe};

pub fn run_memread(world: &World, ops: &[MemReadOp]) -> Vec<MemReadOutcome> {
    use minidump_writer::mem_reader::MemReader;
    use minidump_writer::ptrace_dumper::PtraceDumper;
    let pid = world.pid;
    let mut out = Vec::new();
    // the word-by-word strategy needs a stopped tracee
    let attached = PtraceDumper::suspend_thread(pid).is_ok();
    // long-lived readers, one per strategy (a reader outlives many reads in the writer, too)
    let mut vm = MemReader::for_virtual_mem(pid);
    let mut file = MemReader::for_file(pid).ok();
    let mut pt = MemReader::for_ptrace(pid);
    for op in ops {
        if let Ok(mut g) = LAST_PANIC.lock() {
            *g = None;
        }
        let target_dead = crate::interpose::kernel_do(|k| k.dead).unwrap_or(false);
        let r = catch_unwind(AssertUnwindSafe(|| {
            let Some(len) = std::num::NonZeroUsize::new(op.len as usize) else {
                return (true, Err("zero length".to_string()));
            };
            let mut auto;
            let rd: &mut MemReader = match op.strategy {
                0 => &mut vm,
                1 => match file.as_mut() {
                    Some(f) => f,
                    None => return (true, Err("cannot open the memory file".to_string())),
                },
                2 => &mut pt,
                _ => {
                    auto = MemReader::new(pid);
                    &mut auto
                }
            };
            (false, rd.read_to_vec(op.src as usize, len).map_err(|e| format!("{:?}", e.source)))
        }));
        let died_during = !target_dead && crate::interpose::kernel_do(|k| k.dead).unwrap_or(false);
        match r {
            Ok((setup_failed, result)) => out.push(MemReadOutcome { op: op.clone(), result, panicked: false, setup_failed, target_dead, died_during }),
            Err(_) => out.push(MemReadOutcome {
                op: op.clone(),
                result: Err(LAST_PANIC.lock().ok().and_then(|g| g.clone()).unwrap_or_default()),
                panicked: true,
                setup_failed: false,
                target_dead,
                died_during,
            }),
        }
    }
    drop(file);
    if attached {
        let _ = PtraceDumper::resume_thread(pid);
    }
    out
}

pub fn run_elfid(world: &World, p: &ElfIdPlan) -> ElfOutcome {
    use minidump_writer::module_reader::{BuildId, ProcessReader, ReadFromModule, SoName};
    use std::os::unix::ffi::OsStrExt;
    let mut out = ElfOutcome::default();
    let pid = world.pid;
    let base = p.base as usize;
    let mut guard = |f: &mut dyn FnMut(&mut ElfOutcome)| {
        if let Ok(mut g) = LAST_PANIC.lock() {
            *g = None;
        }
        let mut tmp = ElfOutcome::default();
        let r = catch_unwind(AssertUnwindSafe(|| f(&mut tmp)));
        if r.is_err() {
            out.panics.push(LAST_PANIC.lock().ok().and_then(|g| g.clone()).unwrap_or_default());
        }
        if tmp.mem_build_id.is_some() {
            out.mem_build_id = tmp.mem_build_id;
        }
        if tmp.mem_soname.is_some() {
            out.mem_soname = tmp.mem_soname;
        }
        if tmp.file_build_id.is_some() {
            out.file_build_id = tmp.file_build_id;
        }
        if tmp.file_soname.is_some() {
            out.file_soname = tmp.file_soname;
        }
    };
    if p.base != 0 {
        guard(&mut |o| {
            o.mem_build_id = Some(BuildId::read_from_module(ProcessReader::new(pid, base).into()).map(|b| b.0).map_err(|e| format!("{:?}", e)));
        });
        guard(&mut |o| {
            o.mem_soname = Some(SoName::read_from_module(ProcessReader::new(pid, base).into()).map(|b| b.0).map_err(|e| format!("{:?}", e)));
        });
    }
    if !p.path.0.is_empty() {
        let path = std::path::PathBuf::from(std::ffi::OsStr::from_bytes(&p.path.0));
        guard(&mut |o| {
            o.file_build_id = Some(BuildId::read_from_file(&path).map(|b| b.0).map_err(|e| format!("{:?}", e)));
        });
        guard(&mut |o| {
            o.file_soname = Some(SoName::read_from_file(&path).map(|b| b.0).map_err(|e| format!("{:?}", e)));
        });
    }
    out
}

pub fn dir_header(seed: u64) -> Vec<u8> {
    (0..32u64).map(|i| (crate::rng::mix64(i, seed) & 0xff) as u8).collect()
}

pub fn run_dirsection(p: &DirPlan, seed: u64) -> DirOutcome {
    let mut dest = SimDest::new(&p.dest, seed);
    let mut steps: Vec<DirStep> = Vec::new();
    let mut panicked = None;
    {
        let destref = &mut dest;
        let r = catch_unwind(AssertUnwindSafe(|| {
            let mut steps: Vec<DirStep> = Vec::new();
            let mut buffer = Buffer::with_capacity(0);
            MemoryArrayWriter::write_bytes(&mut buffer, &dir_header(seed));
            let mut dir = match DirSection::new(&mut buffer, p.slots, destref) {
                Ok(d) => d,
                Err(_) => {
                    steps.push(DirStep { image_len: buffer.len() as u64, image: buffer.to_vec(), ok: false, dest_ops_after: 0 });
                    return steps;
                }
            };
            steps.push(DirStep { image_len: buffer.len() as u64, image: buffer.to_vec(), ok: true, dest_ops_after: 0 });
            let mut allocs: Vec<MDLocationDescriptor> = Vec::new();
            let mut arrays: Vec<MemoryArrayWriter<u64>> = Vec::new();
            for op in &p.ops {
                let ok = match op {
                    DirOp::AllocU32(x) => match MemoryWriter::<u32>::alloc_with_val(&mut buffer, *x) {
                        Ok(w) => {
                            allocs.push(w.location());
                            true
                        }
                        Err(_) => false,
                    },
                    DirOp::AllocBytes(b) => {
                        let w = MemoryArrayWriter::write_bytes(&mut buffer, &b.0);
                        allocs.push(w.location());
                        true
                    }
                    DirOp::AllocArrayU64(n) => match MemoryArrayWriter::<u64>::alloc_array(&mut buffer, *n as usize) {
                        Ok(w) => {
                            allocs.push(w.location());
                            arrays.push(w);
                            true
                        }
                        Err(_) => false,
                    },
                    DirOp::SetU64 { array, idx, val } => match arrays.get_mut(*array as usize) {
                        Some(a) => a.set_value_at(&mut buffer, *val, *idx as usize).is_ok(),
                        None => true,
                    },
                    DirOp::WriteString(s) => match write_string_to_location(&mut buffer, s) {
                        Ok(l) => {
                            allocs.push(l);
                            true
                        }
                        Err(_) => false,
                    },
                    DirOp::Flush => dir.write_to_file(&mut buffer, None).is_ok(),
                    DirOp::Dirent { stream_type, from_alloc } => {
                        let location = allocs.get(*from_alloc as usize).copied().unwrap_or(MDLocationDescriptor { data_size: 0, rva: 0 });
                        dir.write_to_file(&mut buffer, Some(MDRawDirectory { stream_type: *stream_type, location })).is_ok()
                    }
                    DirOp::EntryOnly { stream_type, from_alloc } => {
                        let location = allocs.get(*from_alloc as usize).copied().unwrap_or(MDLocationDescriptor { data_size: 0, rva: 0 });
                        dir.dump_dir_entry(&mut buffer, MDRawDirectory { stream_type: *stream_type, location }).is_ok()
                    }
                };
                steps.push(DirStep { image_len: buffer.len() as u64, image: buffer.to_vec(), ok, dest_ops_after: 0 });
                if !ok {
                    break;
                }
            }
            steps
        }));
        match r {
            Ok(s) => steps = s,
            Err(_) => {
                panicked = Some(LAST_PANIC.lock().ok().and_then(|g| g.clone()).unwrap_or_default());
            }
        }
    }
    DirOutcome { dest, steps, panicked }
}

fn put_at(v: &mut Vec<u8>, pos: usize, bytes: &[u8]) {
    if bytes.is_empty() {
        return;
    }
    if v.len() < pos + bytes.len() {
        v.resize(pos + bytes.len(), 0);
    }
    v[pos..pos + bytes.len()].copy_from_slice(bytes);
}

/// Reference model of the directory writer: (image, file, start, flushed, idx).
pub fn check_dirsection(sc: &Scenario, d: &DirOutcome) -> Vec<Violation> {
    let mut out = Vec::new();
    let Workload::DirSection(p) = &sc.workload else { return out };
    if let Some(pm) = &d.panicked {
        if !pm.contains("simdest: planned") {
            out.push(v("C09", "dirsection-panic", pm.clone()));
        }
        return out;
    }
    let start = d.dest.start as usize;
    let mut image: Vec<u8> = dir_header(sc.seed);
    let dir_rva = image.len();
    image.resize(dir_rva + 12 * p.slots as usize, 0);
    let mut file = d.dest.pre.clone();
    let mut flushed = 0usize;
    let mut idx = 0usize;
    let mut allocs: Vec<(u32, u32)> = Vec::new(); // (size, rva)
    let mut arrays: Vec<(usize, usize)> = Vec::new(); // (base, n)
    // step 0 = construction
    let Some(s0) = d.steps.first() else { return out };
    if !s0.ok {
        return out; // stream_position failed by plan
    }
    if s0.image != image {
        out.push(v("C09", "dirsection-image-differs", "after construction".into()));
        return out;
    }
    // replay of the destination: we compare only the final state precisely and, for every
    // successful prefix of ops, the model's file against the patches applied so far.
    let mut last_ok_file = file.clone();
    for (i, op) in p.ops.iter().enumerate() {
        let Some(step) = d.steps.get(i + 1) else { break };
        // writes this op would perform, in order
        let mut writes: Vec<(usize, Vec<u8>)> = Vec::new();
        // alternative legal order for a directory entry: append (slot still zero) first, entry second
        let mut alt_writes: Vec<(usize, Vec<u8>)> = Vec::new();
        // an entry may also reach the destination in pieces: its location first, its type last (upper half, then lower half)
        let mut split_writes: Vec<(usize, Vec<u8>)> = Vec::new();
        match op {
            DirOp::AllocU32(x) => {
                allocs.push((4, image.len() as u32));
                image.extend_from_slice(&x.to_le_bytes());
            }
            DirOp::AllocBytes(b) => {
                allocs.push((b.0.len() as u32, image.len() as u32));
                image.extend_from_slice(&b.0);
            }
            DirOp::AllocArrayU64(n) => {
                allocs.push((*n * 8, image.len() as u32));
                arrays.push((image.len(), *n as usize));
                image.resize(image.len() + *n as usize * 8, 0);
            }
            DirOp::SetU64 { array, idx: k, val } => {
                if let Some((base, _n)) = arrays.get(*array as usize) {
                    let pos = base + *k as usize * 8;
                    put_at(&mut image, pos, &val.to_le_bytes());
                }
            }
            DirOp::WriteString(s) => {
                let units: Vec<u16> = s.encode_utf16().collect();
                allocs.push((4 + units.len() as u32 * 2, image.len() as u32));
                image.extend_from_slice(&(units.len() as u32 * 2).to_le_bytes());
                for u in units {
                    image.extend_from_slice(&u.to_le_bytes());
                }
            }
            DirOp::Flush => {
                if flushed < image.len() {
                    writes.push((start + flushed, image[flushed..].to_vec()));
                }
                flushed = image.len();
            }
            DirOp::Dirent { stream_type, from_alloc } => {
                let (size, rva) = allocs.get(*from_alloc as usize).copied().unwrap_or((0, 0));
                let mut e = Vec::new();
                e.extend_from_slice(&stream_type.to_le_bytes());
                e.extend_from_slice(&size.to_le_bytes());
                e.extend_from_slice(&rva.to_le_bytes());
                let pos = dir_rva + 12 * idx;
                if flushed < image.len() {
                    alt_writes.push((start + flushed, image[flushed..].to_vec()));
                }
                alt_writes.push((start + pos, e.clone()));
                split_writes = alt_writes[..alt_writes.len() - 1].to_vec();
                split_writes.push((start + pos + 4, e[4..].to_vec()));
                split_writes.push((start + pos + 2, e[2..4].to_vec()));
                split_writes.push((start + pos, e[..2].to_vec()));
                put_at(&mut image, pos, &e);
                idx += 1;
                // the statement fixes what ends up in the destination, not the order of the two writes
                writes.push((start + pos, e));
                if flushed < image.len() {
                    writes.push((start + flushed, image[flushed..].to_vec()));
                }
                flushed = image.len();
            }
            DirOp::EntryOnly { stream_type, from_alloc } => {
                let (size, rva) = allocs.get(*from_alloc as usize).copied().unwrap_or((0, 0));
                let mut e = Vec::new();
                e.extend_from_slice(&stream_type.to_le_bytes());
                e.extend_from_slice(&size.to_le_bytes());
                e.extend_from_slice(&rva.to_le_bytes());
                let pos = dir_rva + 12 * idx;
                put_at(&mut image, pos, &e);
                idx += 1;
                // a slot that has been flushed is updated in the destination; one that has not reaches the
                // destination with the next flush (the destination never runs ahead of the flushed image)
                if pos + 12 <= flushed {
                    split_writes.push((start + pos + 4, e[4..].to_vec()));
                    split_writes.push((start + pos + 2, e[2..4].to_vec()));
                    split_writes.push((start + pos, e[..2].to_vec()));
                    writes.push((start + pos, e));
                }
            }
        }
        if step.ok {
            if step.image != image {
                out.push(v("C09", "dirsection-image-differs", format!("after op {} {:?}", i, op)));
                return out;
            }
            for (pos, b) in &writes {
                put_at(&mut file, *pos, b);
            }
            last_ok_file = file.clone();
        } else {
            // failed op: destination = last good file + some of this op's writes, the last one possibly partial
            let mut ok = false;
            let fdata = &d.dest.data;
            let mut variants: Vec<&Vec<(usize, Vec<u8>)>> = vec![&writes];
            if !alt_writes.is_empty() {
                variants.push(&alt_writes);
            }
            if !split_writes.is_empty() {
                variants.push(&split_writes);
            }
            'outer: for ws in variants {
                let mut base = last_ok_file.clone();
                if &base == fdata {
                    ok = true;
                    break;
                }
                for (pos, b) in ws.iter() {
                    let mut m = 0;
                    while m < b.len() && pos + m < fdata.len() && fdata[pos + m] == b[m] {
                        m += 1;
                    }
                    let mut c = base.clone();
                    put_at(&mut c, *pos, &b[..m]);
                    if &c == fdata {
                        ok = true;
                        break 'outer;
                    }
                    put_at(&mut base, *pos, b);
                    if &base == fdata {
                        ok = true;
                        break 'outer;
                    }
                }
            }
            if !ok {
                out.push(v("C09", "dirsection-destination-after-error", format!("op {} {:?} failed; destination is not (last flushed state + a prefix of this op's writes)", i, op)));
            }
            return out;
        }
    }
    if d.dest.data != last_ok_file {
        let pos = d.dest.data.iter().zip(last_ok_file.iter()).position(|(a, b)| a != b).unwrap_or(d.dest.data.len().min(last_ok_file.len()));
        out.push(v(
            "C09",
            "dirsection-destination-differs",
            format!("after {} ops destination ({} bytes) differs from the model ({} bytes) at offset {} (start {})", p.ops.len(), d.dest.data.len(), last_ok_file.len(), pos, start),
        ));
    }
    out
}
