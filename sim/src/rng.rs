//! Hand-written PRNGs (stable across toolchain / crate versions).
//! All randomness is spent at scenario-generation time; executing a scenario draws nothing.

#[inline]
pub fn splitmix64(x: &mut u64) -> u64 {
    *x = x.wrapping_add(0x9E37_79B9_7F4A_7C15);
    let mut z = *x;
    z = (z ^ (z >> 30)).wrapping_mul(0xBF58_476D_1CE4_E5B9);
    z = (z ^ (z >> 27)).wrapping_mul(0x94D0_49BB_1331_11EB);
    z ^ (z >> 31)
}

/// Stateless mix used for address-derived memory patterns and seed derivation.
#[inline]
pub fn mix64(a: u64, b: u64) -> u64 {
    let mut x = a ^ b.rotate_left(32) ^ 0xD6E8_FEB8_6659_FD93;
    x = (x ^ (x >> 32)).wrapping_mul(0xD6E8_FEB8_6659_FD93);
    x = (x ^ (x >> 32)).wrapping_mul(0xD6E8_FEB8_6659_FD93);
    x ^ (x >> 32)
}

pub fn fnv64(s: &[u8]) -> u64 {
    let mut h: u64 = 0xcbf29ce484222325;
    for b in s {
        h ^= *b as u64;
        h = h.wrapping_mul(0x100000001b3);
    }
    h
}

/// seed_i = f(VERIF_SEED, property, i)
pub fn derive_seed(verif_seed: u64, prop: &str, i: u64) -> u64 {
    let mut s = verif_seed ^ fnv64(prop.as_bytes()).rotate_left(17);
    let a = splitmix64(&mut s);
    let mut t = a ^ i.wrapping_mul(0x9E37_79B9_7F4A_7C15);
    splitmix64(&mut t)
}

#[derive(Clone, Debug)]
pub struct Rng {
    s: [u64; 4],
}

impl Rng {
    pub fn new(seed: u64) -> Self {
        let mut sm = seed;
        let s = [
            splitmix64(&mut sm),
            splitmix64(&mut sm),
            splitmix64(&mut sm),
            splitmix64(&mut sm),
        ];
        Rng { s }
    }
    #[inline]
    pub fn next(&mut self) -> u64 {
        let result = self.s[1].wrapping_mul(5).rotate_left(7).wrapping_mul(9);
        let t = self.s[1] << 17;
        self.s[2] ^= self.s[0];
        self.s[3] ^= self.s[1];
        self.s[1] ^= self.s[2];
        self.s[0] ^= self.s[3];
        self.s[2] ^= t;
        self.s[3] = self.s[3].rotate_left(45);
        result
    }
    /// uniform in [0, n)
    #[inline]
    pub fn below(&mut self, n: u64) -> u64 {
        if n == 0 {
            return 0;
        }
        // multiply-shift; bias irrelevant for our purposes
        ((self.next() as u128 * n as u128) >> 64) as u64
    }
    /// inclusive range
    #[inline]
    pub fn range(&mut self, lo: u64, hi: u64) -> u64 {
        debug_assert!(lo <= hi);
        lo + self.below(hi - lo + 1)
    }
    #[inline]
    pub fn chance(&mut self, num: u64, den: u64) -> bool {
        self.below(den) < num
    }
    #[inline]
    pub fn coin(&mut self) -> bool {
        self.next() & 1 == 1
    }
    pub fn pick<'a, T>(&mut self, xs: &'a [T]) -> &'a T {
        &xs[self.below(xs.len() as u64) as usize]
    }
    pub fn pick_copy<T: Copy>(&mut self, xs: &[T]) -> T {
        xs[self.below(xs.len() as u64) as usize]
    }
    pub fn bytes(&mut self, n: usize) -> Vec<u8> {
        let mut v = Vec::with_capacity(n);
        while v.len() < n {
            let x = self.next().to_le_bytes();
            let take = (n - v.len()).min(8);
            v.extend_from_slice(&x[..take]);
        }
        v
    }
    pub fn shuffle<T>(&mut self, xs: &mut [T]) {
        for i in (1..xs.len()).rev() {
            let j = self.below(i as u64 + 1) as usize;
            xs.swap(i, j);
        }
    }
    pub fn fork(&mut self) -> Rng {
        Rng::new(self.next())
    }
}
