//! libc symbol interposition: the writer (and std / nix / memmap2 / procfs-core below it) reach
//! the simulated kernel through these definitions. When the simulation is not active every
//! function passes straight through to the real kernel with a raw syscall.

#![allow(clippy::missing_safety_doc)]

use crate::kernel::*;
use crate::scenario::CallKind;
use crate::syscalls::*;
use libc::{c_char, c_int, c_long, c_uint, c_void, mode_t, off64_t, pid_t, size_t, ssize_t};
use std::cell::UnsafeCell;
use std::panic::{catch_unwind, AssertUnwindSafe};

pub struct Global {
    pub active: bool,
    pub kernel: Option<Box<Kernel>>,
    pub dir_handles: Vec<usize>,
}

pub struct GCell(UnsafeCell<Global>);
unsafe impl Sync for GCell {}

pub static G: GCell = GCell(UnsafeCell::new(Global {
    active: false,
    kernel: None,
    dir_handles: Vec::new(),
}));

#[inline]
fn g() -> &'static mut Global {
    unsafe { &mut *G.0.get() }
}

#[inline]
fn active() -> bool {
    g().active
}

pub fn activate(k: Kernel) {
    let gl = g();
    gl.kernel = Some(Box::new(k));
    gl.active = true;
}

pub fn deactivate() -> Kernel {
    let gl = g();
    gl.active = false;
    let k = gl.kernel.take().expect("no kernel");
    // release leftover placeholder descriptors
    for fd in k.fds.keys() {
        unsafe {
            libc::syscall(libc::SYS_close, *fd as c_long);
        }
    }
    for h in gl.dir_handles.drain(..) {
        unsafe {
            drop(Box::from_raw(h as *mut SimDirHandle));
        }
    }
    *k
}

/// Suspend interposition (used by harness code that must talk to the real kernel mid-run).
pub fn sim_running() -> bool {
    g().kernel.is_some()
}

pub fn pause() -> bool {
    let was = g().active;
    g().active = false;
    was
}
pub fn resume(was: bool) {
    g().active = was;
}

/// Run simulator code for one intercepted call. Never unwinds across the C boundary.
fn with_k<R>(f: impl FnOnce(&mut Kernel) -> R) -> R {
    let gl = g();
    gl.active = false;
    let k = gl.kernel.as_mut().expect("kernel missing while active");
    let r = match catch_unwind(AssertUnwindSafe(|| f(k))) {
        Ok(r) => r,
        Err(_) => {
            let msg = b"HARNESS-ERROR: simulator panicked inside an interposed call\n";
            unsafe {
                libc::syscall(libc::SYS_write, 2, msg.as_ptr(), msg.len());
                libc::_exit(2);
            }
        }
    };
    gl.active = true;
    r
}

/// Access the kernel from harness code (destination seam, oracles) while a run is active.
pub fn kernel_do<R>(f: impl FnOnce(&mut Kernel) -> R) -> Option<R> {
    let gl = g();
    if gl.kernel.is_none() {
        return None;
    }
    let was = gl.active;
    gl.active = false;
    let r = f(gl.kernel.as_mut().unwrap());
    gl.active = was;
    Some(r)
}

#[inline]
unsafe fn set_errno(e: i32) {
    *libc::__errno_location() = e;
}

unsafe fn cbytes<'a>(p: *const c_char) -> &'a [u8] {
    if p.is_null() {
        return b"";
    }
    std::ffi::CStr::from_ptr(p).to_bytes()
}

unsafe fn placeholder_fd() -> i32 {
    libc::syscall(
        libc::SYS_openat,
        libc::AT_FDCWD,
        b"/dev/null\0".as_ptr(),
        libc::O_RDONLY | libc::O_CLOEXEC,
        0,
    ) as i32
}

// ---------------------------------------------------------------------------------------------
// open / read / close

unsafe fn do_open(path: *const c_char, flags: c_int, mode: mode_t) -> c_int {
    if !active() {
        return libc::syscall(libc::SYS_openat, libc::AT_FDCWD, path, flags, mode as c_uint) as c_int;
    }
    let p = cbytes(path).to_vec();
    let r = with_k(|k| k.sys_open(&p));
    match r {
        Ok(of) => {
            let fd = placeholder_fd();
            if fd < 0 {
                set_errno(EMFILE);
                return -1;
            }
            with_k(|k| k.install_fd(fd, of));
            fd
        }
        Err(e) => {
            set_errno(e);
            -1
        }
    }
}

#[no_mangle]
pub unsafe extern "C" fn open64(path: *const c_char, flags: c_int, mode: mode_t) -> c_int {
    do_open(path, flags, mode)
}

#[no_mangle]
pub unsafe extern "C" fn open(path: *const c_char, flags: c_int, mode: mode_t) -> c_int {
    do_open(path, flags, mode)
}

#[no_mangle]
pub unsafe extern "C" fn read(fd: c_int, buf: *mut c_void, n: size_t) -> ssize_t {
    if active() && g().kernel.as_ref().map(|k| k.is_sim_fd(fd)).unwrap_or(false) {
        match with_k(|k| k.sys_read(fd, n)) {
            Ok(v) => {
                std::ptr::copy_nonoverlapping(v.as_ptr(), buf as *mut u8, v.len());
                v.len() as ssize_t
            }
            Err(e) => {
                set_errno(e);
                -1
            }
        }
    } else {
        libc::syscall(libc::SYS_read, fd, buf, n) as ssize_t
    }
}

#[no_mangle]
pub unsafe extern "C" fn pread64(fd: c_int, buf: *mut c_void, n: size_t, off: off64_t) -> ssize_t {
    if active() && g().kernel.as_ref().map(|k| k.is_sim_fd(fd)).unwrap_or(false) {
        match with_k(|k| k.sys_pread(fd, n, off as u64)) {
            Ok(v) => {
                std::ptr::copy_nonoverlapping(v.as_ptr(), buf as *mut u8, v.len());
                v.len() as ssize_t
            }
            Err(e) => {
                set_errno(e);
                -1
            }
        }
    } else {
        libc::syscall(libc::SYS_pread64, fd, buf, n, off) as ssize_t
    }
}

#[no_mangle]
pub unsafe extern "C" fn pread(fd: c_int, buf: *mut c_void, n: size_t, off: off64_t) -> ssize_t {
    pread64(fd, buf, n, off)
}

#[no_mangle]
pub unsafe extern "C" fn close(fd: c_int) -> c_int {
    if active() && g().kernel.as_ref().map(|k| k.is_sim_fd(fd)).unwrap_or(false) {
        with_k(|k| k.sys_close(fd));
    }
    libc::syscall(libc::SYS_close, fd) as c_int
}

#[no_mangle]
pub unsafe extern "C" fn lseek64(fd: c_int, off: off64_t, whence: c_int) -> off64_t {
    if active() && g().kernel.as_ref().map(|k| k.is_sim_fd(fd)).unwrap_or(false) {
        match with_k(|k| k.sys_lseek(fd, off, whence)) {
            Ok(p) => p as off64_t,
            Err(e) => {
                set_errno(e);
                -1
            }
        }
    } else {
        libc::syscall(libc::SYS_lseek, fd, off, whence) as off64_t
    }
}

#[no_mangle]
pub unsafe extern "C" fn lseek(fd: c_int, off: off64_t, whence: c_int) -> off64_t {
    lseek64(fd, off, whence)
}

// ---------------------------------------------------------------------------------------------
// stat family

#[no_mangle]
pub unsafe extern "C" fn statx(
    dirfd: c_int,
    path: *const c_char,
    flags: c_int,
    mask: c_uint,
    buf: *mut libc::statx,
) -> c_int {
    if !active() {
        return libc::syscall(libc::SYS_statx, dirfd, path, flags, mask, buf) as c_int;
    }
    let p = cbytes(path).to_vec();
    let r = if p.is_empty() {
        if g().kernel.as_ref().map(|k| k.is_sim_fd(dirfd)).unwrap_or(false) {
            with_k(|k| k.sys_stat_fd(dirfd))
        } else {
            return libc::syscall(libc::SYS_statx, dirfd, path, flags, mask, buf) as c_int;
        }
    } else {
        with_k(|k| k.sys_stat_path(&p, CallKind::Statx))
    };
    match r {
        Ok((mode, size)) => {
            std::ptr::write_bytes(buf as *mut u8, 0, std::mem::size_of::<libc::statx>());
            (*buf).stx_mask = 0x7ff;
            (*buf).stx_mode = mode as u16;
            (*buf).stx_size = size;
            (*buf).stx_nlink = 1;
            (*buf).stx_blksize = 4096;
            0
        }
        Err(e) => {
            set_errno(e);
            -1
        }
    }
}

unsafe fn do_stat(path: *const c_char, buf: *mut libc::stat, nofollow: bool) -> c_int {
    if !active() {
        return libc::syscall(
            libc::SYS_newfstatat,
            libc::AT_FDCWD,
            path,
            buf,
            if nofollow { libc::AT_SYMLINK_NOFOLLOW } else { 0 },
        ) as c_int;
    }
    let p = cbytes(path).to_vec();
    match with_k(|k| k.sys_stat_path(&p, CallKind::Stat)) {
        Ok((mode, size)) => {
            std::ptr::write_bytes(buf as *mut u8, 0, std::mem::size_of::<libc::stat>());
            (*buf).st_mode = mode;
            (*buf).st_size = size as i64;
            (*buf).st_nlink = 1;
            0
        }
        Err(e) => {
            set_errno(e);
            -1
        }
    }
}

#[no_mangle]
pub unsafe extern "C" fn stat(path: *const c_char, buf: *mut libc::stat) -> c_int {
    do_stat(path, buf, false)
}
#[no_mangle]
pub unsafe extern "C" fn stat64(path: *const c_char, buf: *mut libc::stat) -> c_int {
    do_stat(path, buf, false)
}

#[no_mangle]
pub unsafe extern "C" fn readlink(path: *const c_char, buf: *mut c_char, sz: size_t) -> ssize_t {
    if !active() {
        return libc::syscall(libc::SYS_readlinkat, libc::AT_FDCWD, path, buf, sz) as ssize_t;
    }
    let p = cbytes(path).to_vec();
    match with_k(|k| k.sys_readlink(&p)) {
        Ok(v) => {
            let n = v.len().min(sz);
            std::ptr::copy_nonoverlapping(v.as_ptr(), buf as *mut u8, n);
            n as ssize_t
        }
        Err(e) => {
            set_errno(e);
            -1
        }
    }
}

// ---------------------------------------------------------------------------------------------
// directories

#[repr(C)]
pub struct SimDirHandle {
    pub key: usize,
    pub ent: libc::dirent64,
}

type OpendirFn = unsafe extern "C" fn(*const c_char) -> *mut libc::DIR;
type ReaddirFn = unsafe extern "C" fn(*mut libc::DIR) -> *mut libc::dirent64;
type ClosedirFn = unsafe extern "C" fn(*mut libc::DIR) -> c_int;
type SysconfFn = unsafe extern "C" fn(c_int) -> c_long;

unsafe fn next_sym(name: &[u8]) -> *mut c_void {
    let p = libc::dlsym(libc::RTLD_NEXT, name.as_ptr() as *const c_char);
    if p.is_null() {
        let msg = b"HARNESS-ERROR: dlsym(RTLD_NEXT) failed\n";
        libc::syscall(libc::SYS_write, 2, msg.as_ptr(), msg.len());
        libc::_exit(2);
    }
    p
}

fn is_sim_dir(p: *mut libc::DIR) -> bool {
    g().dir_handles.contains(&(p as usize))
}

#[no_mangle]
pub unsafe extern "C" fn opendir(path: *const c_char) -> *mut libc::DIR {
    if !active() {
        let f: OpendirFn = std::mem::transmute(next_sym(b"opendir\0"));
        return f(path);
    }
    let p = cbytes(path).to_vec();
    match with_k(|k| k.sys_opendir(&p)) {
        Ok(ds) => {
            let was = pause();
            let h = Box::new(SimDirHandle {
                key: 0,
                ent: std::mem::zeroed(),
            });
            let raw = Box::into_raw(h);
            (*raw).key = raw as usize;
            g().dir_handles.push(raw as usize);
            resume(was);
            with_k(|k| {
                k.dirs.insert(raw as usize, ds);
            });
            raw as *mut libc::DIR
        }
        Err(e) => {
            set_errno(e);
            std::ptr::null_mut()
        }
    }
}

#[no_mangle]
pub unsafe extern "C" fn readdir64(d: *mut libc::DIR) -> *mut libc::dirent64 {
    if !is_sim_dir(d) {
        let f: ReaddirFn = std::mem::transmute(next_sym(b"readdir64\0"));
        return f(d);
    }
    let h = d as *mut SimDirHandle;
    let key = (*h).key;
    match with_k(|k| k.sys_readdir(key)) {
        Ok(Some(name)) => {
            let ent = &mut (*h).ent;
            ent.d_ino = 1;
            ent.d_off = 0;
            ent.d_type = libc::DT_UNKNOWN;
            let n = name.len().min(255);
            for (i, b) in name.iter().take(n).enumerate() {
                ent.d_name[i] = *b as c_char;
            }
            ent.d_name[n] = 0;
            ent.d_reclen = std::mem::size_of::<libc::dirent64>() as u16;
            ent as *mut libc::dirent64
        }
        Ok(None) => std::ptr::null_mut(),
        Err(e) => {
            set_errno(e);
            std::ptr::null_mut()
        }
    }
}

#[no_mangle]
pub unsafe extern "C" fn readdir(d: *mut libc::DIR) -> *mut libc::dirent64 {
    readdir64(d)
}

#[no_mangle]
pub unsafe extern "C" fn closedir(d: *mut libc::DIR) -> c_int {
    if !is_sim_dir(d) {
        let f: ClosedirFn = std::mem::transmute(next_sym(b"closedir\0"));
        return f(d);
    }
    let key = d as usize;
    if active() {
        with_k(|k| k.sys_closedir(key));
    }
    let was = pause();
    g().dir_handles.retain(|x| *x != key);
    drop(Box::from_raw(d as *mut SimDirHandle));
    resume(was);
    0
}

// ---------------------------------------------------------------------------------------------
// mmap

#[no_mangle]
pub unsafe extern "C" fn mmap64(
    addr: *mut c_void,
    len: size_t,
    prot: c_int,
    flags: c_int,
    fd: c_int,
    off: off64_t,
) -> *mut c_void {
    if active() && fd >= 0 && g().kernel.as_ref().map(|k| k.is_sim_fd(fd)).unwrap_or(false) {
        match with_k(|k| k.sys_mmap(fd, len, off as u64)) {
            Ok(v) => {
                let p = libc::syscall(
                    libc::SYS_mmap,
                    0usize,
                    len.max(1),
                    libc::PROT_READ | libc::PROT_WRITE,
                    libc::MAP_PRIVATE | libc::MAP_ANONYMOUS,
                    -1,
                    0,
                ) as isize;
                if p == -1 {
                    return libc::MAP_FAILED;
                }
                std::ptr::copy_nonoverlapping(v.as_ptr(), p as *mut u8, v.len());
                p as *mut c_void
            }
            Err(e) => {
                set_errno(e);
                libc::MAP_FAILED
            }
        }
    } else {
        let p = libc::syscall(libc::SYS_mmap, addr, len, prot, flags, fd, off) as isize;
        p as *mut c_void
    }
}

// ---------------------------------------------------------------------------------------------
// ptrace / wait / kill / process_vm_readv

#[no_mangle]
pub unsafe extern "C" fn ptrace(request: c_uint, pid: pid_t, addr: *mut c_void, data: *mut c_void) -> c_long {
    let req = request as i64;
    if !(active() && pid >= SIM_PID_MIN) {
        if (1..=3).contains(&req) {
            let mut out: c_long = 0;
            let r = libc::syscall(libc::SYS_ptrace, req, pid, addr, &mut out as *mut c_long);
            if r >= 0 {
                set_errno(0);
                return out;
            }
            return r;
        }
        return libc::syscall(libc::SYS_ptrace, req, pid, addr, data);
    }
    let fail = |e: i32| -> c_long {
        set_errno(e);
        -1
    };
    match req {
        PTRACE_ATTACH => match with_k(|k| k.sys_ptrace_attach(pid)) {
            Ok(()) => 0,
            Err(e) => fail(e),
        },
        PTRACE_DETACH => match with_k(|k| k.sys_ptrace_detach(pid, data as usize as i32)) {
            Ok(()) => 0,
            Err(e) => fail(e),
        },
        PTRACE_CONT => match with_k(|k| k.sys_ptrace_cont(pid, data as usize as i32)) {
            Ok(()) => 0,
            Err(e) => fail(e),
        },
        PTRACE_GETREGSET => {
            let which = (addr as usize as u64 & 0xffff_ffff) as u32;
            let iov = data as *mut libc::iovec;
            match with_k(|k| k.sys_ptrace_getregs(pid, which, CallKind::PtraceGetregset)) {
                Ok(v) => {
                    let n = v.len().min((*iov).iov_len);
                    std::ptr::copy_nonoverlapping(v.as_ptr(), (*iov).iov_base as *mut u8, n);
                    (*iov).iov_len = n;
                    0
                }
                Err(e) => fail(e),
            }
        }
        PTRACE_GETREGS => match with_k(|k| k.sys_ptrace_getregs(pid, 1, CallKind::PtraceGetregs)) {
            Ok(v) => {
                std::ptr::copy_nonoverlapping(v.as_ptr(), data as *mut u8, v.len());
                0
            }
            Err(e) => fail(e),
        },
        PTRACE_GETFPREGS => match with_k(|k| k.sys_ptrace_getregs(pid, 2, CallKind::PtraceGetfpregs)) {
            Ok(v) => {
                std::ptr::copy_nonoverlapping(v.as_ptr(), data as *mut u8, v.len());
                0
            }
            Err(e) => fail(e),
        },
        PTRACE_PEEKUSER => match with_k(|k| k.sys_ptrace_peekuser(pid, addr as usize as u64)) {
            Ok(v) => {
                set_errno(0);
                v as c_long
            }
            Err(e) => fail(e),
        },
        PTRACE_PEEKDATA | PTRACE_PEEKTEXT => {
            match with_k(|k| k.sys_ptrace_peekdata(pid, addr as usize as u64)) {
                Ok(v) => {
                    set_errno(0);
                    v as c_long
                }
                Err(e) => fail(e),
            }
        }
        _ => {
            with_k(|k| {
                let _ = k.enter(CallKind::PtraceOther, b"");
            });
            fail(EIO)
        }
    }
}

#[no_mangle]
pub unsafe extern "C" fn waitpid(pid: pid_t, status: *mut c_int, options: c_int) -> pid_t {
    if !(active() && pid >= SIM_PID_MIN) {
        return libc::syscall(libc::SYS_wait4, pid, status, options, 0usize) as pid_t;
    }
    match with_k(|k| k.sys_waitpid_opts(pid, options)) {
        Ok((tid, st)) => {
            if !status.is_null() {
                *status = st;
            }
            tid
        }
        Err(e) => {
            set_errno(e);
            -1
        }
    }
}

#[no_mangle]
pub unsafe extern "C" fn kill(pid: pid_t, sig: c_int) -> c_int {
    if !(active() && pid >= SIM_PID_MIN) {
        return libc::syscall(libc::SYS_kill, pid, sig) as c_int;
    }
    match with_k(|k| k.sys_kill(pid, sig)) {
        Ok(()) => 0,
        Err(e) => {
            set_errno(e);
            -1
        }
    }
}

#[no_mangle]
pub unsafe extern "C" fn process_vm_readv(
    pid: pid_t,
    lvec: *const libc::iovec,
    lcnt: libc::c_ulong,
    rvec: *const libc::iovec,
    rcnt: libc::c_ulong,
    flags: libc::c_ulong,
) -> ssize_t {
    if !(active() && pid >= SIM_PID_MIN) {
        return libc::syscall(libc::SYS_process_vm_readv, pid, lvec, lcnt, rvec, rcnt, flags) as ssize_t;
    }
    if lcnt != 1 || rcnt != 1 {
        set_errno(EINVAL);
        return -1;
    }
    let l = &*lvec;
    let r = &*rvec;
    let want = l.iov_len.min(r.iov_len);
    match with_k(|k| k.sys_vmreadv(pid, r.iov_base as usize as u64, want)) {
        Ok(v) => {
            std::ptr::copy_nonoverlapping(v.as_ptr(), l.iov_base as *mut u8, v.len());
            v.len() as ssize_t
        }
        Err(e) => {
            set_errno(e);
            -1
        }
    }
}

// ---------------------------------------------------------------------------------------------
// time

#[no_mangle]
pub unsafe extern "C" fn clock_gettime(clk: libc::clockid_t, ts: *mut libc::timespec) -> c_int {
    if !active() {
        return libc::syscall(libc::SYS_clock_gettime, clk, ts) as c_int;
    }
    let (s, n) = with_k(|k| k.sys_clock_gettime(clk));
    (*ts).tv_sec = s;
    (*ts).tv_nsec = n;
    0
}

#[no_mangle]
pub unsafe extern "C" fn clock_nanosleep(
    clk: libc::clockid_t,
    flags: c_int,
    req: *const libc::timespec,
    rem: *mut libc::timespec,
) -> c_int {
    if !active() {
        let r = libc::syscall(libc::SYS_clock_nanosleep, clk, flags, req, rem);
        return if r < 0 { *libc::__errno_location() } else { 0 };
    }
    let ns = ((*req).tv_sec as u64)
        .saturating_mul(1_000_000_000)
        .saturating_add((*req).tv_nsec as u64);
    match with_k(|k| k.sys_nanosleep(ns)) {
        Ok(()) => 0,
        Err(e) => e,
    }
}

#[no_mangle]
pub unsafe extern "C" fn nanosleep(req: *const libc::timespec, rem: *mut libc::timespec) -> c_int {
    if !active() {
        return libc::syscall(libc::SYS_nanosleep, req, rem) as c_int;
    }
    let ns = ((*req).tv_sec as u64)
        .saturating_mul(1_000_000_000)
        .saturating_add((*req).tv_nsec as u64);
    match with_k(|k| k.sys_nanosleep(ns)) {
        Ok(()) => 0,
        Err(e) => {
            set_errno(e);
            -1
        }
    }
}

// ---------------------------------------------------------------------------------------------
// sysconf / uname

#[no_mangle]
pub unsafe extern "C" fn sysconf(name: c_int) -> c_long {
    if active() && name == libc::_SC_PAGESIZE {
        return match with_k(|k| k.sys_sysconf_pagesize()) {
            Ok(v) => v as c_long,
            Err(e) => {
                set_errno(e);
                -1
            }
        };
    }
    let was = pause();
    let f: SysconfFn = std::mem::transmute(next_sym(b"sysconf\0"));
    let r = f(name);
    resume(was);
    r
}

#[no_mangle]
pub unsafe extern "C" fn uname(buf: *mut libc::utsname) -> c_int {
    if !active() {
        return libc::syscall(libc::SYS_uname, buf) as c_int;
    }
    match with_k(|k| k.sys_uname()) {
        Ok(f) => {
            std::ptr::write_bytes(buf as *mut u8, 0, std::mem::size_of::<libc::utsname>());
            let put = |dst: &mut [c_char; 65], s: &str| {
                for (i, b) in s.as_bytes().iter().take(64).enumerate() {
                    dst[i] = *b as c_char;
                }
            };
            put(&mut (*buf).sysname, f.first().map(|s| s.as_str()).unwrap_or(""));
            put(&mut (*buf).nodename, "simhost");
            put(&mut (*buf).release, f.get(1).map(|s| s.as_str()).unwrap_or(""));
            put(&mut (*buf).version, f.get(2).map(|s| s.as_str()).unwrap_or(""));
            put(&mut (*buf).machine, f.get(3).map(|s| s.as_str()).unwrap_or(""));
            0
        }
        Err(e) => {
            set_errno(e);
            -1
        }
    }
}
