//! Structural scenario minimisation: keep a transformation while the same oracle id still fires.

use crate::oracle;
use crate::scenario::*;

fn fails(prop: &str, sc: &Scenario, oracle_id: &str) -> bool {
    oracle::evaluate(prop, sc).violations.iter().any(|v| v.oracle == oracle_id)
}

fn candidates(sc: &Scenario) -> Vec<Scenario> {
    let mut out = Vec::new();
    // drop events / faults
    for i in 0..sc.events.len() {
        let mut c = sc.clone();
        c.events.remove(i);
        out.push(c);
    }
    for i in 0..sc.faults.len() {
        let mut c = sc.clone();
        c.faults.remove(i);
        out.push(c);
    }
    if sc.sched.read_chunk != 0 {
        let mut c = sc.clone();
        c.sched.read_chunk = 0;
        out.push(c);
    }
    if sc.sched.steps_per_call > 1 {
        let mut c = sc.clone();
        c.sched.steps_per_call = 1;
        out.push(c);
    }
    if let Workload::Dump(p) = &sc.workload {
        let blamed = p.opts.blamed;
        let crash_tid = p.opts.crash.as_ref().map(|c| c.tid);
        // drop threads (never the main one, the blamed one)
        for i in (1..sc.world.threads.len()).rev() {
            let tid = sc.world.threads[i].tid;
            if tid == blamed || Some(tid) == crash_tid {
                continue;
            }
            let mut c = sc.clone();
            c.world.threads.remove(i);
            c.events.retain(|e| match &e.what {
                EventKind::ThreadExit { tid: t } | EventKind::SignalThread { tid: t, .. } => *t != tid,
                _ => true,
            });
            out.push(c);
        }
        // halve the thread list from the tail
        if sc.world.threads.len() > 4 {
            let mut c = sc.clone();
            let keep = sc.world.threads.len() / 2;
            let removed: Vec<i32> = c.world.threads[keep..]
                .iter()
                .map(|t| t.tid)
                .filter(|t| *t != blamed && Some(*t) != crash_tid)
                .collect();
            c.world.threads.retain(|t| !removed.contains(&t.tid));
            c.events.retain(|e| match &e.what {
                EventKind::ThreadExit { tid: t } | EventKind::SignalThread { tid: t, .. } => !removed.contains(t),
                _ => true,
            });
            out.push(c);
        }
        let mut push_opts = |f: &dyn Fn(&mut DumpPlan)| {
            let mut c = sc.clone();
            if let Workload::Dump(p) = &mut c.workload {
                f(p);
            }
            out.push(c);
        };
        if p.opts.crash.is_some() {
            push_opts(&|p| p.opts.crash = None);
        }
        if p.opts.size_limit.is_some() {
            push_opts(&|p| p.opts.size_limit = None);
        }
        if p.opts.sanitize {
            push_opts(&|p| p.opts.sanitize = false);
        }
        if p.opts.skip_unref {
            push_opts(&|p| {
                p.opts.skip_unref = false;
                p.opts.principal = None
            });
        }
        if p.opts.direct_auxv.is_some() {
            push_opts(&|p| p.opts.direct_auxv = None);
        }
        if p.opts.failspots != 0 {
            push_opts(&|p| p.opts.failspots = 0);
            for b in 0..5 {
                if p.opts.failspots & (1 << b) != 0 {
                    push_opts(&|p| p.opts.failspots &= !(1 << b));
                }
            }
        }
        for i in 0..p.opts.app_memory.len() {
            push_opts(&|p| {
                p.opts.app_memory.remove(i);
            });
        }
        for i in 0..p.opts.user_mappings.len() {
            push_opts(&|p| {
                p.opts.user_mappings.remove(i);
            });
        }
        if p.dests.len() > 1 {
            push_opts(&|p| {
                p.dests.pop();
                if p.between.len() >= p.dests.len() && !p.between.is_empty() {
                    p.between.pop();
                }
            });
        }
        for (di, d) in p.dests.iter().enumerate() {
            for fi in 0..d.fx.len() {
                push_opts(&|p| {
                    p.dests[di].fx.remove(fi);
                });
            }
            if d.start != 0 || d.pre_len != 0 {
                push_opts(&|p| {
                    p.dests[di].start = 0;
                    p.dests[di].pre_len = 0;
                });
            }
        }
    }
    // world simplifications
    if sc.world.fds.len() > 1 {
        let mut c = sc.clone();
        c.world.fds.truncate(sc.world.fds.len() / 2);
        out.push(c);
    }
    if !sc.world.plants.is_empty() {
        let mut c = sc.clone();
        c.world.plants.truncate(sc.world.plants.len() / 2);
        out.push(c);
    }
    for i in 0..sc.world.threads.len() {
        if sc.world.threads[i].comm_fault.is_some() {
            let mut c = sc.clone();
            c.world.threads[i].comm_fault = None;
            out.push(c);
        }
        if sc.world.threads[i].program != Program::Parked {
            let mut c = sc.clone();
            c.world.threads[i].program = Program::Parked;
            out.push(c);
        }
    }
    // drop a library (all regions and the file with that name) when nothing else refers to it
    let mut names: Vec<&B> = Vec::new();
    for r in &sc.world.regions {
        if r.name.0.starts_with(b"/usr/lib/") && !names.contains(&&r.name) {
            names.push(&r.name);
        }
    }
    for n in names {
        let mut c = sc.clone();
        c.world.regions.retain(|r| &r.name != n);
        c.world.files.retain(|f| &f.path != n);
        out.push(c);
    }
    out
}

pub fn shrink(prop: &str, sc: &Scenario, oracle_id: &str) -> (Scenario, u32) {
    let mut cur = sc.clone();
    let mut budget = 300i32;
    let mut steps = 0u32;
    if !fails(prop, &cur, oracle_id) {
        return (cur, 0);
    }
    loop {
        let mut progressed = false;
        for c in candidates(&cur) {
            if budget <= 0 {
                break;
            }
            budget -= 1;
            if fails(prop, &c, oracle_id) {
                cur = c;
                steps += 1;
                progressed = true;
                break;
            }
        }
        if !progressed || budget <= 0 {
            break;
        }
    }
    cur.profile = format!("{} (minimised, {} steps)", sc.profile, steps);
    (cur, steps)
}

pub fn trace_of(_prop: &str, sc: &Scenario) -> Vec<String> {
    let res = crate::run::run(
        sc,
        &crate::run::RunOpts {
            trace: true,
            ..Default::default()
        },
    );
    let mut t = res.kernel.trace.clone().unwrap_or_default();
    if t.len() > 3000 {
        let tail = t.split_off(t.len() - 1500);
        t.truncate(1500);
        t.push("...".into());
        t.extend(tail);
    }
    t
}
