//! Simulated system calls (the semantic layer below `interpose.rs`).

use crate::kernel::*;
use crate::scenario::*;

pub const PTRACE_PEEKDATA: i64 = 2;
pub const PTRACE_PEEKTEXT: i64 = 1;
pub const PTRACE_PEEKUSER: i64 = 3;
pub const PTRACE_CONT: i64 = 7;
pub const PTRACE_GETREGS: i64 = 12;
pub const PTRACE_GETFPREGS: i64 = 14;
pub const PTRACE_ATTACH: i64 = 16;
pub const PTRACE_DETACH: i64 = 17;
pub const PTRACE_GETREGSET: i64 = 0x4204;
pub const USER_DEBUGREG_OFF: u64 = 848;

fn dec(n: i64) -> Vec<u8> {
    format!("{}", n).into_bytes()
}

impl Kernel {
    pub fn sys_open(&mut self, path: &[u8]) -> Result<OpenFile, i32> {
        let eff = self.enter(CallKind::Open, path);
        if path.starts_with(b"/dev/") {
            self.gt.dev_opens.push(path.to_vec());
        }
        let r = (|| {
            if let Some(Effect::Errno(e)) = eff {
                return Err(e);
            }
            let (content, mode, regular, kind) = self.vfs_lookup(path)?;
            let mut read_err = None;
            if path.ends_with(b"/comm") {
                // /proc/<pid>/task/<tid>/comm
                let comps: Vec<&[u8]> = path.split(|c| *c == b'/').collect();
                if comps.len() >= 2 {
                    if let Some(tid) = std::str::from_utf8(comps[comps.len() - 2])
                        .ok()
                        .and_then(|s| s.parse::<i32>().ok())
                    {
                        if let Some(i) = self.thread_idx(tid) {
                            if self.threads[i].comm_fault.as_deref() == Some("eio") {
                                read_err = Some(EIO);
                            }
                        }
                    }
                }
            }
            self.gt.file_reads.push((path.to_vec(), Vec::new()));
            Ok(OpenFile {
                kind,
                path: path.to_vec(),
                content,
                pos: 0,
                mode,
                regular,
                read_err,
                gt_idx: self.gt.file_reads.len() - 1,
            })
        })();
        let code = match &r {
            Ok(_) => 0,
            Err(e) => *e,
        };
        self.gt.opens.push((path.to_vec(), code));
        self.tr("open", crate::rng::fnv64(path), 0, -(code as i64));
        r
    }

    pub fn install_fd(&mut self, fd: i32, f: OpenFile) {
        self.fds.insert(fd, f);
    }

    pub fn is_sim_fd(&self, fd: i32) -> bool {
        self.fds.contains_key(&fd)
    }

    pub fn sys_read(&mut self, fd: i32, want: usize) -> Result<Vec<u8>, i32> {
        let path = self.fds.get(&fd).map(|f| f.path.clone()).unwrap_or_default();
        let eff = self.enter(CallKind::Read, &path);
        let mut limit = want as u64;
        match eff {
            Some(Effect::Errno(e)) => {
                if let Some(f) = self.fds.get(&fd) {
                    let gi = f.gt_idx;
                    self.gt.read_failed.insert(gi);
                }
                self.tr("read", fd_hash(&path), want as u64, -(e as i64));
                return Err(e);
            }
            Some(Effect::Short(k)) => limit = limit.min(k.max(1)),
            _ => {}
        }
        if self.sched.read_chunk > 0 {
            limit = limit.min(self.sched.read_chunk);
        }
        let (kind, pos, rerr) = {
            let f = self.fds.get(&fd).ok_or(EBADF)?;
            (f.kind.clone(), f.pos, f.read_err)
        };
        if let Some(e) = rerr {
            if let Some(f) = self.fds.get(&fd) {
                let gi = f.gt_idx;
                self.gt.read_failed.insert(gi);
            }
            self.tr("read", fd_hash(&path), want as u64, -(e as i64));
            return Err(e);
        }
        let out = match kind {
            FdKind::Mem => {
                let r = self.mem_file_read(pos, limit as usize)?;
                r
            }
            FdKind::Dir => return Err(21), // EISDIR
            FdKind::File => {
                let f = self.fds.get(&fd).unwrap();
                let start = (pos as usize).min(f.content.len());
                let end = (start + limit as usize).min(f.content.len());
                f.content[start..end].to_vec()
            }
        };
        let f = self.fds.get_mut(&fd).unwrap();
        f.pos += out.len() as u64;
        let gi = f.gt_idx;
        if gi < self.gt.file_reads.len() {
            self.gt.file_reads[gi].1.extend_from_slice(&out);
        }
        self.tr("read", fd_hash(&path), want as u64, out.len() as i64);
        Ok(out)
    }

    fn mem_file_read(&mut self, off: u64, want: usize) -> Result<Vec<u8>, i32> {
        if self.dead {
            return Ok(Vec::new());
        }
        self.gt.mem_reads += 1;
        self.gt.last_mem_read_seq = self.seq;
        if self.gt.first_capture_seq.is_none() {
            self.gt.first_capture_seq = Some(self.seq);
        }
        let n = self.accessible_run(off, want as u64, true) as usize;
        if n == 0 && want > 0 {
            return Err(EIO);
        }
        if n < want {
            self.gt.short_mem_reads += 1;
        }
        self.gt.strategies_used[1] += 1;
        self.account_transfer(n as u64);
        Ok(self.read_mem_vec(off, n))
    }

    pub fn sys_pread(&mut self, fd: i32, want: usize, off: u64) -> Result<Vec<u8>, i32> {
        let path = self.fds.get(&fd).map(|f| f.path.clone()).unwrap_or_default();
        let eff = self.enter(CallKind::Pread, &path);
        let mut limit = want;
        match eff {
            Some(Effect::Errno(e)) => {
                self.tr("pread", off, want as u64, -(e as i64));
                return Err(e);
            }
            Some(Effect::Short(k)) => limit = limit.min((k as usize).max(1)),
            _ => {}
        }
        let kind = self.fds.get(&fd).ok_or(EBADF)?.kind.clone();
        let r = match kind {
            FdKind::Mem => self.mem_file_read(off, limit),
            FdKind::Dir => Err(21),
            FdKind::File => {
                let f = self.fds.get(&fd).unwrap();
                let start = (off as usize).min(f.content.len());
                let end = (start + limit).min(f.content.len());
                Ok(f.content[start..end].to_vec())
            }
        };
        match &r {
            Ok(v) => self.tr("pread", off, want as u64, v.len() as i64),
            Err(e) => self.tr("pread", off, want as u64, -(*e as i64)),
        }
        r
    }

    pub fn sys_close(&mut self, fd: i32) {
        let path = self.fds.get(&fd).map(|f| f.path.clone()).unwrap_or_default();
        let _ = self.enter(CallKind::Close, &path);
        self.fds.remove(&fd);
        self.tr("close", fd_hash(&path), 0, 0);
    }

    pub fn sys_lseek(&mut self, fd: i32, off: i64, whence: i32) -> Result<u64, i32> {
        let f = self.fds.get_mut(&fd).ok_or(EBADF)?;
        let base: i64 = match whence {
            0 => 0,
            1 => f.pos as i64,
            2 => f.content.len() as i64,
            _ => return Err(EINVAL),
        };
        let np = base.checked_add(off).ok_or(EINVAL)?;
        if np < 0 {
            return Err(EINVAL);
        }
        f.pos = np as u64;
        Ok(f.pos)
    }

    /// returns (mode, size)
    pub fn sys_stat_path(&mut self, path: &[u8], kind: CallKind) -> Result<(u32, u64), i32> {
        let eff = self.enter(kind, path);
        let r = (|| {
            if let Some(Effect::Errno(e)) = eff {
                return Err(e);
            }
            let (content, mode, regular, _k) = self.vfs_lookup(path)?;
            Ok((mode, if regular { content.len() as u64 } else { 0 }))
        })();
        let code = match &r {
            Ok(x) => x.0 as i64,
            Err(e) => -(*e as i64),
        };
        self.tr("stat", crate::rng::fnv64(path), 0, code);
        r
    }

    pub fn sys_stat_fd(&mut self, fd: i32) -> Result<(u32, u64), i32> {
        let path = self.fds.get(&fd).map(|f| f.path.clone()).unwrap_or_default();
        let eff = self.enter(CallKind::Statx, &path);
        if let Some(Effect::Errno(e)) = eff {
            self.tr("fstat", fd_hash(&path), 0, -(e as i64));
            return Err(e);
        }
        let f = self.fds.get(&fd).ok_or(EBADF)?;
        let r = (f.mode, if f.regular { f.content.len() as u64 } else { 0 });
        self.tr("fstat", fd_hash(&path), 0, r.1 as i64);
        Ok(r)
    }

    pub fn sys_readlink(&mut self, path: &[u8]) -> Result<Vec<u8>, i32> {
        let eff = self.enter(CallKind::Readlink, path);
        let r = (|| {
            if let Some(Effect::Errno(e)) = eff {
                return Err(e);
            }
            let rest = path.strip_prefix(b"/proc/").ok_or(EINVAL)?;
            let comps: Vec<&[u8]> = rest.split(|c| *c == b'/').collect();
            if comps.len() == 3 && comps[1] == b"fd" {
                let id: i32 = std::str::from_utf8(comps[0])
                    .ok()
                    .and_then(|s| s.parse().ok())
                    .ok_or(ENOENT)?;
                if !self.visible(id) {
                    return Err(ENOENT);
                }
                let n: u32 = std::str::from_utf8(comps[2])
                    .ok()
                    .and_then(|s| s.parse().ok())
                    .ok_or(ENOENT)?;
                if self.closed_fds.contains(&n) {
                    return Err(ENOENT);
                }
                let fd = self.world.fds.iter().find(|f| f.fd == n).ok_or(ENOENT)?;
                if fd.link_fails {
                    return Err(36); // ENAMETOOLONG: the link text does not fit a path
                }
                return Ok(fd.target.0.clone());
            }
            Err(EINVAL)
        })();
        let code = match &r {
            Ok(v) => v.len() as i64,
            Err(e) => -(*e as i64),
        };
        self.tr("readlink", crate::rng::fnv64(path), 0, code);
        r
    }

    pub fn sys_opendir(&mut self, path: &[u8]) -> Result<DirStream, i32> {
        let eff = self.enter(CallKind::Opendir, path);
        let r = (|| {
            if let Some(Effect::Errno(e)) = eff {
                return Err(e);
            }
            let (_c, mode, _r, _k) = self.vfs_lookup(path)?;
            if mode & 0o170000 != S_IFDIR {
                return Err(ENOTDIR);
            }
            let is_task = path.ends_with(b"/task");
            Ok(DirStream {
                path: path.to_vec(),
                entries: Vec::new(),
                next: usize::MAX, // not yet filled
                is_task,
            })
        })();
        let code = match &r {
            Ok(_) => 0,
            Err(e) => -(*e as i64),
        };
        self.tr("opendir", crate::rng::fnv64(path), 0, code);
        r
    }

    /// Ok(Some(name)) | Ok(None) end | Err(errno)
    pub fn sys_readdir(&mut self, key: usize) -> Result<Option<Vec<u8>>, i32> {
        let path = self.dirs.get(&key).map(|d| d.path.clone()).unwrap_or_default();
        let eff = self.enter(CallKind::Readdir, &path);
        if let Some(Effect::Errno(e)) = eff {
            self.tr("readdir", fd_hash(&path), 0, -(e as i64));
            return Err(e);
        }
        // fill lazily at the first readdir (one getdents call covers small directories)
        let need_fill = self.dirs.get(&key).map(|d| d.next == usize::MAX).unwrap_or(false);
        if need_fill {
            let mut entries: Vec<Vec<u8>> = vec![b".".to_vec(), b"..".to_vec()];
            let is_task = self.dirs[&key].is_task;
            if is_task {
                // what counts as "the enumeration" is the last listing of the task directory: the wait
                // for the stop of a process whose initial thread has exited lists it too, before
                self.gt.enumerated.clear();
                for t in &self.threads {
                    if t.life != Life::Gone {
                        entries.push(dec(t.tid as i64));
                    }
                }
            } else if path.ends_with(b"/fd") {
                // the descriptor table is listed through a task: one that has exited (zombie) shows none
                let owner_zombie = path
                    .split(|c| *c == b'/')
                    .filter_map(|c| std::str::from_utf8(c).ok().and_then(|s| s.parse::<i32>().ok()))
                    .last()
                    .and_then(|tid| self.thread_idx(tid))
                    .map(|i| self.threads[i].life != Life::Alive)
                    .unwrap_or(false);
                if !self.dead && !owner_zombie {
                    for f in &self.world.fds {
                        if !self.closed_fds.contains(&f.fd) {
                            entries.push(dec(f.fd as i64));
                        }
                    }
                }
            }
            let d = self.dirs.get_mut(&key).unwrap();
            d.entries = entries;
            d.next = 0;
        }
        let d = self.dirs.get_mut(&key).ok_or(EBADF)?;
        let r = if d.next < d.entries.len() {
            let e = d.entries[d.next].clone();
            d.next += 1;
            Some(e)
        } else {
            None
        };
        if let Some(name) = &r {
            if let Some(n) = std::str::from_utf8(name).ok().and_then(|s| s.parse::<i64>().ok()) {
                if self.dirs[&key].is_task {
                    self.gt.enumerated.push(n as i32);
                } else {
                    self.gt.fd_listed.push(n as u32);
                }
            }
        }
        self.tr(
            "readdir",
            fd_hash(&path),
            0,
            r.as_ref().map(|v| v.len() as i64).unwrap_or(0),
        );
        Ok(r)
    }

    pub fn sys_closedir(&mut self, key: usize) {
        let path = self.dirs.get(&key).map(|d| d.path.clone()).unwrap_or_default();
        let _ = self.enter(CallKind::Closedir, &path);
        self.dirs.remove(&key);
    }

    pub fn sys_mmap(&mut self, fd: i32, len: usize, off: u64) -> Result<Vec<u8>, i32> {
        let path = self.fds.get(&fd).map(|f| f.path.clone()).unwrap_or_default();
        let eff = self.enter(CallKind::Mmap, &path);
        if path.starts_with(b"/dev/") {
            self.gt.dev_opens.push(path.clone());
        }
        if let Some(Effect::Errno(e)) = eff {
            self.tr("mmap", fd_hash(&path), len as u64, -(e as i64));
            return Err(e);
        }
        let f = self.fds.get(&fd).ok_or(EBADF)?;
        if !f.regular {
            return Err(ENODEV);
        }
        let mut v = vec![0u8; len];
        let start = (off as usize).min(f.content.len());
        let end = (start + len).min(f.content.len());
        v[..end - start].copy_from_slice(&f.content[start..end]);
        self.tr("mmap", fd_hash(&path), len as u64, 0);
        Ok(v)
    }

    // -----------------------------------------------------------------------------------------
    // ptrace

    pub fn sys_ptrace_attach(&mut self, tid: i32) -> Result<(), i32> {
        let eff = self.enter(CallKind::PtraceAttach, &dec(tid as i64));
        let r = (|| {
            if let Some(Effect::Errno(e)) = eff {
                return Err(e);
            }
            if !self.visible(tid) {
                return Err(ESRCH);
            }
            let i = self.thread_idx(tid).unwrap();
            if self.threads[i].life == Life::Zombie {
                return Err(EPERM);
            }
            if self.threads[i].traced_by_writer || self.threads[i].foreign_tracer {
                return Err(EPERM);
            }
            self.threads[i].traced_by_writer = true;
            self.threads[i].was_attached = true;
            self.attached_now += 1;
            self.sigseq += 1;
            let seq = self.sigseq;
            if !self.threads[i].pending.iter().any(|p| p.signo == SIGSTOP) {
                self.threads[i].pending.push(PendingSig {
                    signo: SIGSTOP,
                    id: 0,
                    seq,
                });
            }
            if self.threads[i].group_stopped {
                self.threads[i].group_stopped = false;
                self.threads[i].pstop = Some((SIGSTOP, u32::MAX));
                self.threads[i].reportable = true;
                self.gt.probe("attach_to_group_stopped");
            } else {
                self.gt.probe("attach_to_running");
            }
            Ok(())
        })();
        match &r {
            Ok(()) => self.gt.attach_ok.push(tid),
            Err(e) => self.gt.attach_fail.push((tid, *e)),
        }
        self.tr("ptrace_attach", tid as u64, 0, r.err().map(|e| -(e as i64)).unwrap_or(0));
        r
    }

    fn stopped_tracee(&self, tid: i32) -> Result<usize, i32> {
        if !self.visible(tid) {
            return Err(ESRCH);
        }
        let i = self.thread_idx(tid).ok_or(ESRCH)?;
        let t = &self.threads[i];
        if t.life != Life::Alive || !t.traced_by_writer || t.pstop.is_none() {
            return Err(ESRCH);
        }
        Ok(i)
    }

    pub fn sys_ptrace_detach(&mut self, tid: i32, sig: i32) -> Result<(), i32> {
        let eff = self.enter(CallKind::PtraceDetach, &dec(tid as i64));
        let r = (|| {
            if let Some(Effect::Errno(e)) = eff {
                return Err(e);
            }
            let i = self.stopped_tracee(tid)?;
            self.close_capture_window();
            let (ssig, sid) = self.threads[i].pstop.take().unwrap();
            self.threads[i].reportable = false;
            self.threads[i].traced_by_writer = false;
            self.attached_now = self.attached_now.saturating_sub(1);
            self.inject(i, sig, ssig, sid);
            if self.group_stop && self.threads[i].join_stop_at.is_none() {
                self.threads[i].group_stopped = true;
            }
            Ok(())
        })();
        if r.is_ok() {
            self.gt.detach_ok.push(tid);
        }
        self.tr("ptrace_detach", tid as u64, sig as u64, r.err().map(|e| -(e as i64)).unwrap_or(0));
        r
    }

    /// the tracer resumes a tracee with `sig` (0 = suppress) from a stop caused by (ssig, sid)
    fn inject(&mut self, i: usize, sig: i32, ssig: i32, sid: u32) {
        let tid = self.threads[i].tid;
        let seq = self.seq;
        if sig != 0 {
            let id = if sig == ssig && sid != u32::MAX && sid != 0 {
                sid
            } else {
                u32::MAX - 1 // fabricated delivery
            };
            if sig == SIGSTOP {
                // re-injected stop: thread would stop the group; keep simple: pending again
                self.threads[i].pending.push(PendingSig { signo: SIGSTOP, id: 0, seq });
            } else {
                self.gt.delivered.push(Delivered { tid, signo: sig, id, seq });
            }
        } else if sid != 0 && sid != u32::MAX {
            self.note(format!("signal {} id {} suppressed by tracer", ssig, sid));
        }
    }

    pub fn sys_ptrace_cont(&mut self, tid: i32, sig: i32) -> Result<(), i32> {
        let eff = self.enter(CallKind::PtraceCont, &dec(tid as i64));
        let r = (|| {
            if let Some(Effect::Errno(e)) = eff {
                return Err(e);
            }
            let i = self.stopped_tracee(tid)?;
            let (ssig, sid) = self.threads[i].pstop.take().unwrap();
            self.threads[i].reportable = false;
            self.inject(i, sig, ssig, sid);
            self.gt.probe("ptrace_cont");
            Ok(())
        })();
        self.tr("ptrace_cont", tid as u64, sig as u64, r.err().map(|e| -(e as i64)).unwrap_or(0));
        r
    }

    /// which: 1 = general regs, 2 = fp regs
    pub fn sys_ptrace_getregs(&mut self, tid: i32, which: u32, kind: CallKind) -> Result<Vec<u8>, i32> {
        let eff = self.enter(kind, &dec(tid as i64));
        let r = (|| {
            if let Some(Effect::Errno(e)) = eff {
                return Err(e);
            }
            let i = self.stopped_tracee(tid)?;
            if kind == CallKind::PtraceGetregset && self.threads[i].compat32 {
                // a task in 32-bit mode: the register-set interface returns the i386 layouts, shorter
                // than what a 64-bit caller asked for (the interposer reports the length in iov_len)
                let regs = self.threads[i].regs;
                return match which {
                    1 => {
                        self.threads[i].getregs_seq = Some(self.seq);
                        self.threads[i].getregs_val = Some(regs);
                        // ebx ecx edx esi edi ebp eax ds es fs gs orig_eax eip cs eflags esp ss
                        let order = [5usize, 11, 12, 13, 14, 4, 10, 23, 24, 25, 26, 15, 16, 17, 18, 19, 20];
                        let mut v = Vec::with_capacity(68);
                        for o in order {
                            v.extend_from_slice(&(regs[o] as u32).to_le_bytes());
                        }
                        Ok(v)
                    }
                    2 => Ok(self.threads[i].fp[..108.min(self.threads[i].fp.len())].to_vec()),
                    _ => Err(EINVAL),
                };
            }
            match which {
                1 => {
                    let regs = self.threads[i].regs;
                    self.threads[i].getregs_seq = Some(self.seq);
                    self.threads[i].getregs_val = Some(regs);
                    let mut v = Vec::with_capacity(NREGS * 8);
                    for r in regs.iter() {
                        v.extend_from_slice(&r.to_le_bytes());
                    }
                    Ok(v)
                }
                2 => Ok(self.threads[i].fp.clone()),
                _ => Err(EINVAL),
            }
        })();
        self.tr("ptrace_getregs", tid as u64, which as u64, r.as_ref().err().map(|e| -(*e as i64)).unwrap_or(0));
        r
    }

    pub fn sys_ptrace_peekuser(&mut self, tid: i32, off: u64) -> Result<u64, i32> {
        let eff = self.enter(CallKind::PtracePeekuser, &dec(tid as i64));
        let r = (|| {
            if let Some(Effect::Errno(e)) = eff {
                return Err(e);
            }
            let i = self.stopped_tracee(tid)?;
            if off % 8 != 0 {
                return Err(EIO);
            }
            if off >= USER_DEBUGREG_OFF && off < USER_DEBUGREG_OFF + 64 {
                Ok(self.threads[i].dregs[((off - USER_DEBUGREG_OFF) / 8) as usize])
            } else if off < (NREGS * 8) as u64 {
                Ok(self.threads[i].regs[(off / 8) as usize])
            } else {
                Ok(0)
            }
        })();
        self.tr("ptrace_peekuser", tid as u64, off, r.err().map(|e| -(e as i64)).unwrap_or(0));
        r
    }

    pub fn sys_ptrace_peekdata(&mut self, tid: i32, addr: u64) -> Result<u64, i32> {
        let eff = self.enter(CallKind::PtracePeekdata, &dec(tid as i64));
        let r = (|| {
            if let Some(Effect::Errno(e)) = eff {
                return Err(e);
            }
            let _i = self.stopped_tracee(tid)?;
            self.gt.mem_reads += 1;
            self.gt.last_mem_read_seq = self.seq;
            if self.gt.first_capture_seq.is_none() {
                self.gt.first_capture_seq = Some(self.seq);
            }
            if addr.checked_add(8).is_none() || self.accessible_run(addr, 8, true) < 8 {
                return Err(EIO);
            }
            self.gt.strategies_used[2] += 1;
            let v = self.read_mem_vec(addr, 8);
            Ok(u64::from_le_bytes(v.try_into().unwrap()))
        })();
        self.tr("ptrace_peekdata", tid as u64, addr, r.err().map(|e| -(e as i64)).unwrap_or(0));
        r
    }

    /// Ok((tid, raw status))
    pub fn sys_waitpid(&mut self, tid: i32) -> Result<(i32, i32), i32> {
        self.sys_waitpid_opts(tid, 0)
    }

    /// options: bit 0 = WNOHANG
    pub fn sys_waitpid_opts(&mut self, tid: i32, options: i32) -> Result<(i32, i32), i32> {
        let eff = self.enter(CallKind::Waitpid, &dec(tid as i64));
        let r = (|| {
            match eff {
                Some(Effect::Errno(e)) => return Err(e),
                Some(Effect::Status(s)) => return Ok((tid, s)),
                _ => {}
            }
            let i = self.thread_idx(tid).ok_or(ECHILD)?;
            let mut rounds = 0u32;
            loop {
                let t = &self.threads[i];
                if !(t.traced_by_writer || t.exit_report.is_some()) || t.life == Life::Gone {
                    return Err(ECHILD);
                }
                if t.reportable {
                    if let Some(code) = t.exit_report {
                        let t = &mut self.threads[i];
                        t.life = Life::Gone;
                        t.traced_by_writer = false;
                        t.reportable = false;
                        t.exit_report = None;
                        self.attached_now = self.attached_now.saturating_sub(1);
                        self.gt.probe("wait_saw_exit");
                        self.reap_killed_leftovers();
                        let status = if code == SIGKILL { SIGKILL } else { 0 };
                        return Ok((tid, status));
                    }
                    let (sig, sid) = t.pstop.unwrap();
                    let regs = t.regs;
                    let t = &mut self.threads[i];
                    t.reportable = false;
                    if sig == SIGSTOP {
                        t.regs_at_stop = Some(regs);
                    } else {
                        self.gt.probe("wait_saw_foreign_signal");
                    }
                    let _ = sid;
                    return Ok((tid, (sig << 8) | 0x7f));
                }
                if options & 1 != 0 {
                    // WNOHANG: nothing to report yet
                    self.step_all(1);
                    return Ok((0, 0));
                }
                // block: let the world advance (straight to the moment the awaited thread wakes
                // from an uninterruptible wait, if it is in one)
                self.clock_ns += 10_000;
                if let Some(t) = self.threads.iter().find(|t| t.tid == tid && t.life == Life::Alive) {
                    if t.blocked_until_ns > self.clock_ns {
                        if t.blocked_until_ns > self.sched.max_ns {
                            self.wait_on_sleeper = Some(tid);
                        }
                        self.clock_ns = t.blocked_until_ns;
                    }
                }
                let mut progressed = self.step_all(1);
                rounds += 1;
                if !progressed {
                    // nothing can happen before the next timed wake-up: jump there
                    if let Some(t) = self.next_wake_time() {
                        self.clock_ns = t;
                        progressed = true;
                    }
                }
                let pending_join = self.threads.iter().any(|t| t.join_stop_at.is_some());
                if (!progressed && !pending_join) || rounds > 200_000 {
                    self.wait_deadlock = true;
                    self.budget_exhausted = true;
                    return Err(ECHILD);
                }
                if self.clock_ns > self.sched.max_ns {
                    self.budget_exhausted = true;
                    return Err(ECHILD);
                }
            }
        })();
        match &r {
            Ok((_, s)) => self.tr("waitpid", tid as u64, 0, *s as i64),
            Err(e) => self.tr("waitpid", tid as u64, 0, -(*e as i64)),
        }
        r
    }

    pub fn sys_kill(&mut self, pid: i32, sig: i32) -> Result<(), i32> {
        let eff = self.enter(CallKind::Kill, &dec(sig as i64));
        let r = (|| {
            if let Some(Effect::Errno(e)) = eff {
                return Err(e);
            }
            if pid != self.world.pid {
                return Err(ESRCH);
            }
            if !self.threads.iter().any(|t| t.life != Life::Gone) {
                return Err(ESRCH);
            }
            if self.dead {
                // a signal to a process that only consists of zombies is accepted and has no effect
                return Ok(());
            }
            match sig {
                0 => {}
                SIGSTOP => {
                    self.gt.stop_sent = true;
                    if !self.shared_pending.iter().any(|p| p.signo == SIGSTOP) {
                        self.sigseq += 1;
                        let seq = self.sigseq;
                        self.shared_pending.push(PendingSig { signo: SIGSTOP, id: 0, seq });
                    }
                }
                SIGCONT => {
                    self.gt.cont_sent = true;
                    self.close_capture_window();
                    self.end_group_stop_pub();
                }
                SIGKILL => self.kill_process(),
                s => {
                    self.sigseq += 1;
                    let seq = self.sigseq;
                    self.shared_pending.push(PendingSig { signo: s, id: u32::MAX - 2, seq });
                }
            }
            Ok(())
        })();
        self.tr("kill", pid as u64, sig as u64, r.err().map(|e| -(e as i64)).unwrap_or(0));
        r
    }

    pub fn sys_vmreadv(&mut self, pid: i32, addr: u64, want: usize) -> Result<Vec<u8>, i32> {
        // description: "<pid> @<hex address>+" so that a trigger can select reads of one address
        let eff = self.enter(CallKind::Vmreadv, format!("{} @{:x}+", pid, addr).as_bytes());
        let r = (|| {
            let mut limit = want;
            match eff {
                Some(Effect::Errno(e)) => return Err(e),
                Some(Effect::Short(k)) => limit = limit.min((k as usize).max(1)),
                _ => {}
            }
            if !self.visible(pid) {
                return Err(ESRCH);
            }
            let i = self.thread_idx(pid).ok_or(ESRCH)?;
            if self.threads[i].life != Life::Alive {
                return Err(ESRCH);
            }
            self.gt.mem_reads += 1;
            self.gt.last_mem_read_seq = self.seq;
            if self.gt.first_capture_seq.is_none() {
                self.gt.first_capture_seq = Some(self.seq);
            }
            let n = self.accessible_run(addr, limit as u64, false) as usize;
            if n == 0 && want > 0 {
                return Err(EFAULT);
            }
            if n < want {
                self.gt.short_mem_reads += 1;
            }
            self.gt.strategies_used[0] += 1;
            self.account_transfer(n as u64);
            Ok(self.read_mem_vec(addr, n))
        })();
        match &r {
            Ok(v) => self.tr("vmreadv", addr, want as u64, v.len() as i64),
            Err(e) => self.tr("vmreadv", addr, want as u64, -(*e as i64)),
        }
        r
    }

    /// returns (sec, nsec)
    pub fn sys_clock_gettime(&mut self, clk: i32) -> (i64, i64) {
        let _ = self.enter(CallKind::ClockGettime, b"");
        let ns = self.clock_ns;
        let (s, n) = if clk == 0 {
            ((self.realtime_base_s + ns / 1_000_000_000) as i64, (ns % 1_000_000_000) as i64)
        } else {
            ((1000 + ns / 1_000_000_000) as i64, (ns % 1_000_000_000) as i64)
        };
        self.tr("clock_gettime", clk as u64, 0, s ^ n);
        (s, n)
    }

    pub fn sys_nanosleep(&mut self, ns: u64) -> Result<(), i32> {
        let eff = self.enter(CallKind::Nanosleep, b"");
        // the only way a relative sleep with valid arguments fails is EINTR (std asserts that)
        if let Some(Effect::Errno(EINTR)) = eff {
            return Err(EINTR);
        }
        self.clock_ns = self.clock_ns.saturating_add(ns);
        if self.clock_ns > self.sched.max_ns {
            self.budget_exhausted = true;
        }
        let rounds = self.sched.steps_per_call.max(1);
        self.step_all(rounds);
        self.tr("nanosleep", ns, 0, 0);
        Ok(())
    }

    /// Not a scheduling point: memmap2 caches the page size process-wide after its first call, so
    /// counting these calls would make a run depend on what ran earlier in the same process.
    pub fn sys_sysconf_pagesize(&mut self) -> Result<i64, i32> {
        Ok(4096)
    }

    pub fn sys_uname(&mut self) -> Result<Vec<String>, i32> {
        let eff = self.enter(CallKind::Uname, b"");
        if let Some(Effect::Errno(e)) = eff {
            return Err(e);
        }
        if self.world.uname_fails {
            return Err(EFAULT);
        }
        Ok(self.world.uname.clone())
    }

    pub fn end_group_stop_pub(&mut self) {
        self.end_group_stop();
    }

    /// harness pseudo-call: lets events attach to "between dumps" and advances the target
    pub fn harness_tick(&mut self, label: &str) {
        let _ = self.enter(CallKind::Harness, label.as_bytes());
    }
}

fn fd_hash(path: &[u8]) -> u64 {
    crate::rng::fnv64(path)
}
