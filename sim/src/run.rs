//! Execute a scenario against the real writer code inside the simulation.

use crate::dest::{DestOp, SimDest};
use crate::interpose::{activate, deactivate, kernel_do};
use crate::kernel::Kernel;
use crate::scenario::*;
use minidump_writer::minidump_writer::MinidumpWriter;
use minidump_writer::FailSpotName;
use std::panic::{catch_unwind, AssertUnwindSafe};
use std::sync::Mutex;

pub static LAST_PANIC: Mutex<Option<String>> = Mutex::new(None);

pub fn install_panic_hook() {
    std::panic::set_hook(Box::new(|info| {
        let was = crate::interpose::pause();
        let loc = info
            .location()
            .map(|l| format!("{}:{}", l.file(), l.line()))
            .unwrap_or_else(|| "?".into());
        let msg = if let Some(s) = info.payload().downcast_ref::<&str>() {
            s.to_string()
        } else if let Some(s) = info.payload().downcast_ref::<String>() {
            s.clone()
        } else {
            "<non-string panic>".into()
        };
        if !crate::interpose::sim_running() {
            eprintln!("HARNESS-PANIC: {} @ {}", msg, loc);
        }
        if let Ok(mut g) = LAST_PANIC.lock() {
            *g = Some(format!("{} @ {}", msg, loc));
        }
        crate::interpose::resume(was);
    }));
}

#[derive(Clone, Debug)]
pub enum DumpRes {
    Ok(Vec<u8>),
    Err(String),
    Panic(String),
}

impl DumpRes {
    pub fn is_ok(&self) -> bool {
        matches!(self, DumpRes::Ok(_))
    }
    pub fn image(&self) -> Option<&[u8]> {
        match self {
            DumpRes::Ok(v) => Some(v),
            _ => None,
        }
    }
    pub fn tag(&self) -> &'static str {
        match self {
            DumpRes::Ok(_) => "ok",
            DumpRes::Err(_) => "err",
            DumpRes::Panic(_) => "panic",
        }
    }
}

pub struct DumpOutcome {
    pub result: DumpRes,
    pub dest: SimDest,
    /// kernel state right after the request returned and the world settled
    pub kernel_after: Kernel,
    /// kernel state just before the request (only kept when asked for: reuse oracle)
    pub kernel_before: Option<Kernel>,
    /// writer fields that could leak between requests, observed after the call
    pub memory_blocks_after: usize,
    pub seq_begin: u64,
    pub seq_end: u64,
}

pub struct RunResult {
    pub dumps: Vec<DumpOutcome>,
    pub kernel: Kernel,
    pub mem_reads: Vec<MemReadOutcome>,
    pub elf: Option<ElfOutcome>,
    pub dir: Option<DirOutcome>,
    pub harness_panic: Option<String>,
}

#[derive(Clone, Debug)]
pub struct MemReadOutcome {
    pub op: MemReadOp,
    /// Ok(bytes) | Err(text) | Panic
    pub result: Result<Vec<u8>, String>,
    pub panicked: bool,
    pub setup_failed: bool,
    /// the target had already been killed when this read was issued
    pub target_dead: bool,
    /// ... or was killed while this read was in progress
    pub died_during: bool,
}

#[derive(Clone, Debug, Default)]
pub struct ElfOutcome {
    pub mem_build_id: Option<Result<Vec<u8>, String>>,
    pub mem_soname: Option<Result<String, String>>,
    pub file_build_id: Option<Result<Vec<u8>, String>>,
    pub file_soname: Option<Result<String, String>>,
    pub panics: Vec<String>,
}

pub struct DirOutcome {
    pub dest: SimDest,
    /// image after each op (None when the op itself failed)
    pub steps: Vec<DirStep>,
    pub panicked: Option<String>,
}

pub struct DirStep {
    pub image_len: u64,
    pub image: Vec<u8>,
    pub ok: bool,
    pub dest_ops_after: u32,
}

pub fn perms_from_str(p: &str) -> procfs_core::process::MMPermissions {
    use procfs_core::process::MMPermissions as P;
    let b = p.as_bytes();
    let mut out = P::NONE;
    if b.first() == Some(&b'r') {
        out |= P::READ;
    }
    if b.get(1) == Some(&b'w') {
        out |= P::WRITE;
    }
    if b.get(2) == Some(&b'x') {
        out |= P::EXECUTE;
    }
    match b.get(3) {
        Some(b'p') => out |= P::PRIVATE,
        Some(b's') => out |= P::SHARED,
        _ => {}
    }
    out
}

pub fn build_crash_context(c: &CrashSpec, pid: i32) -> minidump_writer::crash_context::CrashContext {
    // SAFETY: plain-old-data struct; every field we care about is set below
    let mut inner: crash_context::CrashContext = unsafe { std::mem::zeroed() };
    for (i, g) in c.gregs.iter().enumerate().take(23) {
        inner.context.uc_mcontext.gregs[i] = *g;
    }
    let f = &mut inner.float_state;
    f.cwd = c.fp.cwd;
    f.swd = c.fp.swd;
    f.ftw = c.fp.ftw;
    f.fop = c.fp.fop;
    f.rip = c.fp.rip;
    f.rdp = c.fp.rdp;
    f.mxcsr = c.fp.mxcsr;
    f.mxcr_mask = c.fp.mxcr_mask;
    for (i, v) in c.fp.st.iter().enumerate().take(32) {
        f.st_space[i] = *v;
    }
    for (i, v) in c.fp.xmm.iter().enumerate().take(64) {
        f.xmm_space[i] = *v;
    }
    inner.siginfo.ssi_signo = c.signo;
    inner.siginfo.ssi_code = c.code;
    inner.siginfo.ssi_addr = c.addr;
    inner.pid = pid;
    inner.tid = c.tid;
    minidump_writer::crash_context::CrashContext { inner }
}

pub fn build_writer(world: &World, o: &Opts) -> MinidumpWriter {
    use std::os::unix::ffi::OsStringExt;
    let mut w = MinidumpWriter::new(world.pid, o.blamed);
    if let Some(c) = &o.crash {
        w.set_crash_context(build_crash_context(c, world.pid));
    }
    if let Some(l) = o.size_limit {
        w.set_minidump_size_limit(l);
    }
    if o.sanitize {
        w.sanitize_stack();
    }
    if o.skip_unref {
        w.skip_stacks_if_mapping_unreferenced();
    }
    if let Some(p) = o.principal {
        w.set_principal_mapping_address(p as usize);
    }
    if !o.app_memory.is_empty() {
        w.set_app_memory(
            o.app_memory
                .iter()
                .map(|(p, l)| minidump_writer::app_memory::AppMemory {
                    ptr: *p as usize,
                    length: *l as usize,
                })
                .collect(),
        );
    }
    if !o.user_mappings.is_empty() {
        let list = o
            .user_mappings
            .iter()
            .map(|u| minidump_writer::maps_reader::MappingEntry {
                mapping: minidump_writer::maps_reader::MappingInfo {
                    start_address: u.start as usize,
                    size: u.size as usize,
                    system_mapping_info: minidump_writer::maps_reader::SystemMappingInfo {
                        start_address: if u.sysinfo_zeroed { 0 } else { u.start as usize },
                        end_address: if u.sysinfo_zeroed { 0 } else { u.start.saturating_add(u.size) as usize },
                    },
                    offset: u.offset as usize,
                    permissions: perms_from_str(&u.perms),
                    name: u.name.as_ref().map(|n| std::ffi::OsString::from_vec(n.0.clone())),
                },
                identifier: u.identifier.0.clone(),
            })
            .collect();
        w.set_user_mapping_list(list);
    }
    if let Some(d) = &o.direct_auxv {
        w.set_direct_auxv_dump_info(minidump_writer::minidump_writer::DirectAuxvDumpInfo {
            program_header_count: d[0],
            program_header_address: d[1],
            linux_gate_address: d[2],
            entry_address: d[3],
        });
    }
    if let Some(ms) = o.stop_timeout_ms {
        // u64::MAX stands for Duration::MAX ("no limit")
        w.stop_timeout(if ms == u64::MAX { std::time::Duration::MAX } else { std::time::Duration::from_millis(ms) });
    }
    w
}

const FAILSPOTS: [FailSpotName; 5] = [
    FailSpotName::StopProcess,
    FailSpotName::FillMissingAuxvInfo,
    FailSpotName::ThreadName,
    FailSpotName::SuspendThreads,
    FailSpotName::CpuInfoFileOpen,
];

pub struct RunOpts {
    pub trace: bool,
    pub keep_before: bool,
    pub settle_rounds: u32,
}

impl Default for RunOpts {
    fn default() -> Self {
        RunOpts {
            trace: false,
            keep_before: false,
            settle_rounds: 200,
        }
    }
}

fn one_dump(w: &mut MinidumpWriter, plan: &DestPlan, salt: u64, ro: &RunOpts) -> DumpOutcome {
    let kernel_before = if ro.keep_before {
        kernel_do(|k| k.clone())
    } else {
        None
    };
    let seq_begin = kernel_do(|k| {
        k.begin_dump();
        k.seq
    })
    .unwrap_or(0);
    let mut dest = SimDest::new(plan, salt);
    if let Ok(mut g) = LAST_PANIC.lock() {
        *g = None;
    }
    let r = catch_unwind(AssertUnwindSafe(|| w.dump(&mut dest)));
    let result = match r {
        Ok(Ok(v)) => DumpRes::Ok(v),
        Ok(Err(e)) => {
            let was = crate::interpose::pause();
            let s = format!("{:?}", e);
            crate::interpose::resume(was);
            DumpRes::Err(s)
        }
        Err(_) => {
            let m = LAST_PANIC.lock().ok().and_then(|g| g.clone()).unwrap_or_default();
            DumpRes::Panic(m)
        }
    };
    let seq_end = kernel_do(|k| k.seq).unwrap_or(0);
    let kernel_after = kernel_do(|k| {
        k.settle(ro.settle_rounds);
        k.clone()
    })
    .unwrap();
    // faults stay off between requests only for the settle phase
    kernel_do(|k| k.faults_enabled = true);
    DumpOutcome {
        result,
        dest,
        kernel_after,
        kernel_before,
        memory_blocks_after: w.memory_blocks.len(),
        seq_begin,
        seq_end,
    }
}

pub fn run(sc: &Scenario, ro: &RunOpts) -> RunResult {
    let mut k = Kernel::new(sc);
    if ro.trace {
        k.trace = Some(Vec::new());
    }
    let mut res = RunResult {
        dumps: Vec::new(),
        kernel: k.clone(),
        mem_reads: Vec::new(),
        elf: None,
        dir: None,
        harness_panic: None,
    };
    match &sc.workload {
        Workload::Dump(plan) => {
            let mut client = FailSpotName::testing_client();
            for (i, name) in FAILSPOTS.iter().enumerate() {
                client.set_enabled(*name, plan.opts.failspots & (1 << i) != 0);
            }
            let mut w = build_writer(&sc.world, &plan.opts);
            activate(k);
            for (di, dp) in plan.dests.iter().enumerate() {
                if di > 0 {
                    if let Some(evs) = plan.between.get(di - 1) {
                        let evs = evs.clone();
                        kernel_do(|k| {
                            for e in &evs {
                                k.apply_event_pub(e);
                            }
                        });
                    }
                    kernel_do(|k| k.harness_tick("between"));
                }
                let out = one_dump(&mut w, dp, sc.seed ^ (di as u64), ro);
                res.dumps.push(out);
            }
            drop(w);
            res.kernel = deactivate();
            drop(client);
        }
        Workload::MemRead(ops) => {
            activate(k);
            res.mem_reads = crate::workloads::run_memread(&sc.world, ops);
            res.kernel = deactivate();
        }
        Workload::ElfId(p) => {
            activate(k);
            res.elf = Some(crate::workloads::run_elfid(&sc.world, p));
            res.kernel = deactivate();
        }
        Workload::DirSection(p) => {
            activate(k);
            res.dir = Some(crate::workloads::run_dirsection(p, sc.seed));
            res.kernel = deactivate();
        }
    }
    res
}

/// Run one dump with a fresh writer against a given kernel state (reuse oracle, twins).
pub fn dump_on_kernel(k: Kernel, world: &World, opts: &Opts, dp: &DestPlan, salt: u64) -> DumpOutcome {
    let mut client = FailSpotName::testing_client();
    for (i, name) in FAILSPOTS.iter().enumerate() {
        client.set_enabled(*name, opts.failspots & (1 << i) != 0);
    }
    let mut w = build_writer(world, opts);
    activate(k);
    let out = one_dump(&mut w, dp, salt, &RunOpts::default());
    drop(w);
    let _ = deactivate();
    drop(client);
    out
}

pub fn dest_ops_summary(ops: &[DestOp]) -> String {
    let mut s = String::new();
    for o in ops {
        s.push_str(&format!("{:?}({})@{}->{};", o.kind, o.arg, o.pos_before, o.result));
    }
    s
}
