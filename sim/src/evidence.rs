//! evidence/<id>.json writer (EVIDENCE.schema.json).

use crate::driver::{verif_dir, WorkerOut};
use serde_json::{json, Value};

pub fn level(prop: &str) -> &'static str {
    match prop {
        "C03" | "C09" | "C10" | "C11" => "fault_enumeration",
        _ => "exploration",
    }
}

pub fn rule(prop: &str) -> String {
    let common = "Cases are scenarios expanded from splitmix64(VERIF_SEED, property, index) by a swarm generator \
(features on/off first, then sizes, then contents) and executed by the real writer against the simulated kernel. \
A case's signature = generator profile + bucketed generator choices (tags) + per-request outcome + the ordered list of \
(trigger call kind, fired event or fault kind); distinct = distinct signature hash (each worker stops adding to its set at 250 000 entries, so very large runs report a lower bound). ";
    let specific = match prop {
        "C01" => "Non-trivial = the dump succeeded (there is an image to judge) and at least one option, world feature or fault beyond the thread-count class was active.",
        "C02" => "Non-trivial = at least one hostile feature (hostile registers, corrupted linker data, odd names, syscall fault) was active in the case.",
        "C03" => "One case = one base scenario plus its fault sweep (one run per faulted kernel call index / destination op). Non-trivial = at least one event or fault fired inside the dump window.",
        "C09" => "One case = a dump under a destination plan plus its fault-free twin, or one directory-writer op sequence. Non-trivial = a destination fault fired, a non-zero start offset was used, or the op sequence contains at least one flush after growth.",
        "C10" => "One case = one scenario with every boundary between destination calls used as a crash point and every call failed in turn. Non-trivial = the recorded run has at least 20 destination calls.",
        "C11" => "Non-trivial = at least one best-effort step failed (failspot or natural failure).",
        _ => "Non-trivial = the dump (or component call) reached the code the property is about: the request succeeded or the relevant fault/event fired.",
    };
    format!("{}{}", common, specific)
}

pub fn assumptions(prop: &str) -> Vec<String> {
    let mut v = vec![
        "x86_64 Linux writer only; src/mac and src/windows are not compiled on this host".to_string(),
        "the simulated kernel (ptrace/signal/procfs/mm/clock model in /verif/sim/src/kernel.rs, syscalls.rs) is the trusted base; its memory-call and ptrace semantics follow measurements on this sandbox's kernel (DESIGN.md 2.11)".to_string(),
        "real code: all of /repo/src/linux, dir_section.rs, mem_writer.rs and every dependency (nix, procfs-core, goblin, memmap2, scroll, error-graph, failspot, serde_json, std); stub: kernel, target process, clock, destination".to_string(),
        "bounds: 1..130 threads, <= 200 map lines, application regions <= 1 MiB (one C01 world moves 5 GiB of stack data), mappings up to 1 TiB, <= 5 requests per writer".to_string(),
    ];
    match prop {
        "C03" | "C04" => v.push("verdict is relative to the ptrace/signal/group-stop model; the generated signals are ones the target handles (standard, real-time, and - for C03 - the job-control stop signals SIGTSTP/SIGTTIN/SIGTTOU with handlers installed); no default-action signals, and no SIGSTOP/SIGCONT other than the writer's own".to_string()),
        "C17" => v.push("process_vm_readv honours page protections, /proc/pid/mem and PTRACE_PEEKDATA use FOLL_FORCE on private mappings (measured on this kernel); shared/device mappings not generated".to_string()),
        _ => {}
    }
    v
}

pub fn write(prop: &str, tier: &str, seed: u64, m: &WorkerOut, nviol: u64, wall: f64, workers: u64) {
    if std::env::var("VERIF_NO_EVIDENCE").is_ok() {
        return; // secondary pass (release-mode slice): the primary pass owns the evidence file
    }
    let mut faults = serde_json::Map::new();
    let mut probes = serde_json::Map::new();
    let mut events = serde_json::Map::new();
    let mut other = serde_json::Map::new();
    for (k, n) in &m.counters {
        if let Some(r) = k.strip_prefix("fault ") {
            faults.insert(r.to_string(), json!(n));
        } else if let Some(r) = k.strip_prefix("probe ") {
            probes.insert(r.to_string(), json!(n));
        } else if let Some(r) = k.strip_prefix("event ") {
            events.insert(r.to_string(), json!(n));
        } else {
            other.insert(k.clone(), json!(n));
        }
    }
    let samples: Vec<Value> = if m.samples.is_empty() {
        vec![json!("no non-trivial case in this run")]
    } else {
        m.samples.clone()
    };
    let conformance: Value = std::fs::read_to_string(format!("{}/sim/conformance_result.json", verif_dir()))
        .ok()
        .and_then(|s| serde_json::from_str(&s).ok())
        .unwrap_or_else(|| json!("conformance lane not run in this checkout (./check conformance)"));
    let ev = json!({
        "property_id": prop,
        "tier": if tier == "thorough" { "thorough" } else { "quick" },
        "seed": seed,
        "level": level(prop),
        "coverage": {
            "evaluations": m.evaluations,
            "distinct_nontrivial": m.nontrivial_sigs.len(),
            "distinct_signatures": m.sigs.len(),
            "rule": rule(prop),
            "samples": samples,
            "simulated_runs": m.runs,
            "runs_per_hour": if wall > 0.0 { (m.runs as f64 / wall * 3600.0) as u64 } else { 0 },
            "seeds_per_hour": if wall > 0.0 { (m.evaluations as f64 / wall * 3600.0) as u64 } else { 0 },
            "simulated_seconds": m.sim_ns as f64 / 1e9,
            "simulated_calls": m.sim_calls,
            "faults_fired": faults,
            "events_fired": events,
            "probes": probes,
            "outcomes": other,
            "workers": workers,
            "stopped_early_by_wall_clock": m.stopped_early,
            "exhaustive": false,
            "stub_conformance_vs_real_kernel": conformance,
            "components": {
                "real": ["minidump-writer src/linux/**", "src/dir_section.rs", "src/mem_writer.rs", "nix", "procfs-core", "goblin", "memmap2", "scroll", "error-graph", "failspot", "serde_json", "std"],
                "stub": ["Linux kernel (process, ptrace, signals, procfs, VFS, mm)", "target process", "clock", "destination"]
            }
        },
        "assumptions": assumptions(prop),
        "wall_s": wall,
        "violations": nviol,
    });
    let dir = format!("{}/evidence", verif_dir());
    let _ = std::fs::create_dir_all(&dir);
    let path = format!("{}/{}.json", dir, prop);
    if std::fs::write(&path, serde_json::to_string_pretty(&ev).unwrap()).is_err() {
        eprintln!("HARNESS-ERROR: cannot write {}", path);
        std::process::exit(2);
    }
}
