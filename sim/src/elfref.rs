//! Independent ELF reader (64-bit little-endian), written from the ELF specification:
//! GNU build-id note, text fold, DT_SONAME. No goblin.

fn u16a(b: &[u8], o: usize) -> Option<u16> {
    Some(u16::from_le_bytes(b.get(o..o + 2)?.try_into().ok()?))
}
fn u32a(b: &[u8], o: usize) -> Option<u32> {
    Some(u32::from_le_bytes(b.get(o..o + 4)?.try_into().ok()?))
}
fn u64a(b: &[u8], o: usize) -> Option<u64> {
    Some(u64::from_le_bytes(b.get(o..o + 8)?.try_into().ok()?))
}

pub struct Ph {
    pub ty: u32,
    pub flags: u32,
    pub off: u64,
    pub vaddr: u64,
    pub filesz: u64,
    pub align: u64,
}
pub struct Sh {
    pub name: u32,
    pub ty: u32,
    pub flags: u64,
    pub addr: u64,
    pub off: u64,
    pub size: u64,
    pub link: u32,
    pub align: u64,
}

pub struct Elf<'a> {
    pub b: &'a [u8],
    pub phs: Vec<Ph>,
    pub shs: Vec<Sh>,
    pub shstrndx: usize,
}

pub fn parse(b: &[u8]) -> Option<Elf<'_>> {
    if b.get(0..4)? != b"\x7fELF" || *b.get(4)? != 2 || *b.get(5)? != 1 {
        return None;
    }
    let phoff = u64a(b, 32)? as usize;
    let shoff = u64a(b, 40)? as usize;
    let phentsize = u16a(b, 54)? as usize;
    let phnum = u16a(b, 56)? as usize;
    let shentsize = u16a(b, 58)? as usize;
    let shnum = u16a(b, 60)? as usize;
    let shstrndx = u16a(b, 62)? as usize;
    let mut phs = Vec::new();
    if phoff != 0 && phentsize >= 56 {
        for i in 0..phnum {
            let o = phoff + i * phentsize;
            phs.push(Ph {
                ty: u32a(b, o)?,
                flags: u32a(b, o + 4)?,
                off: u64a(b, o + 8)?,
                vaddr: u64a(b, o + 16)?,
                filesz: u64a(b, o + 32)?,
                align: u64a(b, o + 48)?,
            });
        }
    }
    let mut shs = Vec::new();
    if shoff != 0 && shentsize >= 64 {
        for i in 0..shnum {
            let o = shoff + i * shentsize;
            let Some(name) = u32a(b, o) else { break };
            shs.push(Sh {
                name,
                ty: u32a(b, o + 4)?,
                flags: u64a(b, o + 8)?,
                addr: u64a(b, o + 16)?,
                off: u64a(b, o + 24)?,
                size: u64a(b, o + 32)?,
                link: u32a(b, o + 40)?,
                align: u64a(b, o + 48)?,
            });
        }
    }
    Some(Elf { b, phs, shs, shstrndx })
}

fn notes_build_id(b: &[u8], off: usize, size: usize, align: usize) -> Option<Vec<u8>> {
    let al = if align == 8 { 8 } else { 4 };
    let data = b.get(off..off.checked_add(size)?)?;
    let mut p = 0usize;
    while p + 12 <= data.len() {
        let namesz = u32a(data, p)? as usize;
        let descsz = u32a(data, p + 4)? as usize;
        let ty = u32a(data, p + 8)?;
        let name_off = p + 12;
        let desc_off = (name_off + namesz + al - 1) & !(al - 1);
        let next = (desc_off + descsz + al - 1) & !(al - 1);
        let name = data.get(name_off..name_off + namesz)?;
        let desc = data.get(desc_off..desc_off + descsz)?;
        if ty == 3 && name == b"GNU\0" {
            return Some(desc.to_vec());
        }
        if next <= p {
            break;
        }
        p = next;
    }
    None
}

impl<'a> Elf<'a> {
    fn sec_name(&self, s: &Sh) -> Option<&'a [u8]> {
        let st = self.shs.get(self.shstrndx)?;
        let start = st.off as usize + s.name as usize;
        let tail = self.b.get(start..(st.off + st.size) as usize)?;
        let end = tail.iter().position(|c| *c == 0)?;
        Some(&tail[..end])
    }

    /// virtual address that the first byte of a loaded image corresponds to
    pub fn image_base(&self) -> u64 {
        self.phs.iter().filter(|p| p.ty == 1).map(|p| p.vaddr & !0xfff).min().unwrap_or(0)
    }

    /// Build id out of a memory image (`self.b` holds the image from its first byte: contents sit at
    /// their virtual address minus the image base). Only what a loaded image offers: the note in a
    /// PT_NOTE segment, else a note / text section if the section table happens to be loaded.
    pub fn build_id_mem(&self) -> Option<Vec<u8>> {
        // an object without program headers (a relocatable object) has no loaded form: whatever maps
        // it maps the file as it is, and nothing in it can be found by address
        if self.phs.is_empty() {
            return None;
        }
        let base = self.image_base();
        for p in &self.phs {
            if p.ty == 4 {
                if let Some(id) = notes_build_id(self.b, p.vaddr.wrapping_sub(base) as usize, p.filesz as usize, p.align as usize) {
                    return Some(id);
                }
            }
        }
        for s in &self.shs {
            if self.sec_name(s) == Some(b".note.gnu.build-id") {
                if let Some(id) = notes_build_id(self.b, s.addr.wrapping_sub(base) as usize, s.size as usize, s.align as usize) {
                    return Some(id);
                }
            }
        }
        for s in &self.shs {
            if s.ty == 1 && s.flags & 2 != 0 && s.flags & 4 != 0 {
                let len = (s.size as usize).min(4096);
                let o = s.addr.wrapping_sub(base) as usize;
                let text = self.b.get(o..o.checked_add(len)?)?;
                let mut out = vec![0u8; 16];
                for (i, c) in text.iter().enumerate() {
                    out[i % 16] ^= *c;
                }
                return Some(out);
            }
        }
        None
    }

    /// GNU build-id note, else XOR-fold of the first page of the first executable section
    pub fn build_id(&self) -> Option<Vec<u8>> {
        for p in &self.phs {
            if p.ty == 4 {
                if let Some(id) = notes_build_id(self.b, p.off as usize, p.filesz as usize, p.align as usize) {
                    return Some(id);
                }
            }
        }
        for s in &self.shs {
            if self.sec_name(s) == Some(b".note.gnu.build-id") {
                if let Some(id) = notes_build_id(self.b, s.off as usize, s.size as usize, s.align as usize) {
                    return Some(id);
                }
            }
        }
        for s in &self.shs {
            if s.ty == 1 && s.flags & 2 != 0 && s.flags & 4 != 0 {
                let len = (s.size as usize).min(4096);
                let text = self.b.get(s.off as usize..s.off as usize + len)?;
                let mut out = vec![0u8; 16];
                for (i, c) in text.iter().enumerate() {
                    out[i % 16] ^= *c;
                }
                return Some(out);
            }
        }
        None
    }

    /// DT_SONAME string (file view: addresses are file offsets in the flat images we generate;
    /// for general files the string table is located through the section that contains it)
    pub fn soname(&self) -> Option<String> {
        self.soname_at(0)
    }

    /// SONAME out of a memory image (segments sit at their virtual addresses relative to the load
    /// base; d_ptr entries may have been relocated to absolute addresses by the loader)
    pub fn soname_mem(&self, load_base: u64) -> Option<String> {
        let dynp = self.phs.iter().find(|p| p.ty == 2)?;
        let ib = self.image_base();
        let dv = dynp.vaddr.wrapping_sub(ib);
        let d = self.b.get(dv as usize..(dv + dynp.filesz) as usize)?;
        let mut strtab = None;
        let mut strsz = None;
        let mut so = None;
        let mut i = 0;
        while i + 16 <= d.len() {
            let tag = u64a(d, i)?;
            let val = u64a(d, i + 8)?;
            match tag {
                0 => break,
                5 => strtab = Some(val),
                10 => strsz = Some(val),
                14 => so = Some(val),
                _ => {}
            }
            i += 16;
        }
        let (mut strtab, strsz, so) = (strtab?, strsz?, so?);
        if strtab >= load_base {
            strtab -= load_base;
        } else {
            strtab = strtab.wrapping_sub(ib);
        }
        if so >= strsz {
            return None;
        }
        let tab = self.b.get(strtab as usize..(strtab + strsz) as usize)?;
        let tail = &tab[so as usize..];
        let end = tail.iter().position(|c| *c == 0)?;
        Some(String::from_utf8_lossy(&tail[..end]).into_owned())
    }

    /// `load_base`: when the image is a memory image whose d_ptr entries were relocated by the
    /// loader, absolute addresses >= load_base are taken relative to it
    pub fn soname_at(&self, load_base: u64) -> Option<String> {
        let dynp = self.phs.iter().find(|p| p.ty == 2)?;
        let d = self.b.get(dynp.off as usize..(dynp.off + dynp.filesz) as usize)?;
        let mut strtab = None;
        let mut strsz = None;
        let mut so = None;
        let mut i = 0;
        while i + 16 <= d.len() {
            let tag = u64a(d, i)?;
            let val = u64a(d, i + 8)?;
            match tag {
                0 => break,
                5 => strtab = Some(val),
                10 => strsz = Some(val),
                14 => so = Some(val),
                _ => {}
            }
            i += 16;
        }
        let (mut strtab, strsz, so) = (strtab?, strsz?, so?);
        if load_base != 0 && strtab >= load_base {
            strtab -= load_base;
        }
        if so >= strsz {
            return None;
        }
        // translate the string table's virtual address to a file offset through PT_LOAD
        let mut file_off = None;
        for p in &self.phs {
            if p.ty == 1 && strtab >= p.vaddr && strtab < p.vaddr + p.filesz {
                file_off = Some(p.off + (strtab - p.vaddr));
            }
        }
        let fo = file_off? as usize;
        let tab = self.b.get(fo..fo + strsz as usize)?;
        let tail = &tab[so as usize..];
        let end = tail.iter().position(|c| *c == 0)?;
        Some(String::from_utf8_lossy(&tail[..end]).into_owned())
    }
}
