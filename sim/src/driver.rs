//! check driver: forks worker processes, merges results, shrinks + writes replay files,
//! matches known findings, writes evidence.

use crate::oracle::{self, Violation};
use crate::profiles;
use crate::scenario::Scenario;
use serde_json::{json, Value};
use std::collections::{BTreeMap, BTreeSet};
use std::io::Write;

pub const CLAIMED: [&str; 17] = ["C01", "C04", "C05", "C06", "C07", "C09", "C10", "C15", "C19", "C20", "C11", "C17", "C08", "C14", "C18", "C02", "C03"];

pub fn verif_dir() -> String {
    std::env::var("VERIF_DIR").unwrap_or_else(|_| "/verif".to_string())
}

pub fn verif_seed() -> u64 {
    std::env::var("VERIF_SEED")
        .ok()
        .and_then(|s| s.parse::<u64>().ok())
        .unwrap_or(1)
}

pub struct Budget {
    pub cases: u64,
    /// wall-clock cap for the worker phase (seconds)
    pub wall_s: u64,
}

pub fn budget(prop: &str, tier: &str) -> Budget {
    let quick = tier != "thorough";
    let (q, t): (u64, u64) = match prop {
        "C01" => (40_000, 6_000_000),
        "C02" => (60_000, 4_000_000),
        "C03" => (1_500, 100_000),
        "C04" => (40_000, 6_000_000),
        "C05" => (40_000, 8_000_000),
        "C06" => (40_000, 2_400_000),
        "C07" => (30_000, 4_000_000),
        "C08" => (30_000, 6_000_000),
        "C09" => (6_000, 5_000_000),
        "C10" => (3_000, 400_000),
        "C11" => (20_000, 3_000_000),
        "C14" => (30_000, 20_000_000),
        "C15" => (40_000, 5_000_000),
        "C17" => (60_000, 20_000_000),
        "C18" => (30_000, 4_000_000),
        "C19" => (10_000, 1_500_000),
        "C20" => (30_000, 5_000_000),
        _ => (10_000, 100_000),
    };
    let mut cases = if quick { q } else { t };
    if let Ok(s) = std::env::var("VERIF_CASES") {
        if let Ok(n) = s.parse::<u64>() {
            cases = n;
        }
    }
    Budget {
        cases,
        wall_s: if quick { 60 } else { 900 },
    }
}

#[derive(Default)]
pub struct WorkerOut {
    pub evaluations: u64,
    pub runs: u64,
    pub sigs: BTreeSet<u64>,
    pub nontrivial_sigs: BTreeSet<u64>,
    pub violations: Vec<(u64, String, String)>,
    pub counters: BTreeMap<String, u64>,
    pub samples: Vec<Value>,
    pub trace_hashes: Vec<(u64, u64)>,
    pub sim_ns: u64,
    pub sim_calls: u64,
    pub stopped_early: bool,
    /// (milliseconds, index) of the index that took longest; peak resident set of the worker in MiB
    pub slowest: (u64, u64),
    pub peak_rss_mib: u64,
}

impl WorkerOut {
    fn to_json(&self) -> Value {
        json!({
            "evaluations": self.evaluations,
            "runs": self.runs,
            "sigs": self.sigs.iter().map(|h| format!("{:x}", h)).collect::<Vec<_>>(),
            "nontrivial_sigs": self.nontrivial_sigs.iter().map(|h| format!("{:x}", h)).collect::<Vec<_>>(),
            "violations": self.violations.iter().map(|(i, o, d)| json!([i, o, d])).collect::<Vec<_>>(),
            "counters": self.counters,
            "samples": self.samples,
            "trace_hashes": self.trace_hashes.iter().map(|(i, h)| json!([i, format!("{:x}", h)])).collect::<Vec<_>>(),
            "sim_ns": self.sim_ns,
            "sim_calls": self.sim_calls,
            "stopped_early": self.stopped_early,
            "slowest": [self.slowest.0, self.slowest.1],
            "peak_rss_mib": self.peak_rss_mib,
        })
    }
}

/// worker: indices i ≡ w (mod nw), i < count
pub fn worker(prop: &str, seed: u64, w: u64, nw: u64, count: u64, out_path: &str, wall_s: u64, hashes: bool) -> i32 {
    let mut out = WorkerOut::default();
    let t0 = std::time::Instant::now();
    let cur_path = format!("{}.cur", out_path);
    let mut cur = std::fs::File::create(&cur_path).ok();
    let mut i = w;
    let mut viol_per_oracle: BTreeMap<String, u32> = BTreeMap::new();
    while i < count {
        if t0.elapsed().as_secs() >= wall_s {
            out.stopped_early = true;
            break;
        }
        if let Some(f) = cur.as_mut() {
            use std::os::unix::fs::FileExt;
            let _ = f.write_at(format!("{:<20}", i).as_bytes(), 0);
        }
        let sc = profiles::generate(prop, seed, i);
        // per-index wall-clock watchdog (an endless CPU-only loop makes no simulated call); the one
        // world that moves more than 4 GiB of bytes gets more time
        let limit = if sc.tags.iter().any(|t| t.starts_with("over-")) { 240 } else { 25 };
        arm_watchdog(limit);
        let t_idx = std::time::Instant::now();
        let ev = oracle::evaluate(prop, &sc);
        disarm_watchdog();
        let ms = t_idx.elapsed().as_millis() as u64;
        if ms >= out.slowest.0 {
            out.slowest = (ms, i);
        }
        out.evaluations += 1;
        out.runs += ev.runs;
        out.sim_ns = out.sim_ns.saturating_add(ev.sim_ns);
        out.sim_calls += ev.sim_calls;
        let h = crate::rng::fnv64(ev.signature.as_bytes());
        // the sets are only a measure of variety: stop growing them at 250k entries per worker
        if out.sigs.len() < 250_000 {
            out.sigs.insert(h);
        }
        if ev.nontrivial && out.nontrivial_sigs.len() < 250_000 {
            out.nontrivial_sigs.insert(h);
        }
        for (k, n) in ev.counters {
            *out.counters.entry(k).or_insert(0) += n;
        }
        if hashes {
            out.trace_hashes.push((i, ev.trace_hash));
        }
        if out.samples.len() < 2 && ev.nontrivial {
            out.samples.push(summarize(&sc, &ev.signature));
        }
        for v in ev.violations {
            let c = viol_per_oracle.entry(v.oracle.clone()).or_insert(0);
            *c += 1;
            if *c <= 3 {
                out.violations.push((i, v.oracle, v.detail));
            }
        }
        i += nw;
    }
    out.peak_rss_mib = unsafe {
        let mut ru: libc::rusage = std::mem::zeroed();
        libc::getrusage(libc::RUSAGE_SELF, &mut ru);
        (ru.ru_maxrss as u64) >> 10
    };
    let s = serde_json::to_string(&out.to_json()).unwrap();
    if std::fs::write(out_path, s).is_err() {
        return 2;
    }
    let _ = std::fs::remove_file(cur_path);
    0
}

pub fn summarize(sc: &Scenario, sig: &str) -> Value {
    let (opts, ndumps) = match &sc.workload {
        crate::scenario::Workload::Dump(p) => (serde_json::to_value(&p.opts).unwrap_or(Value::Null), p.dests.len()),
        _ => (Value::Null, 0),
    };
    let mut opts = opts;
    if let Some(o) = opts.as_object_mut() {
        if o.get("crash").map(|c| !c.is_null()).unwrap_or(false) {
            o.insert("crash".into(), json!("<crash context>"));
        }
    }
    let workload = match &sc.workload {
        crate::scenario::Workload::Dump(_) => json!({"dump": {"opts": opts, "requests": ndumps}}),
        other => {
            let s = serde_json::to_string(other).unwrap_or_default();
            let s: String = s.chars().take(600).collect();
            json!(s)
        }
    };
    json!({
        "profile": sc.profile,
        "seed": sc.seed,
        "threads": sc.world.threads.len(),
        "regions": sc.world.regions.len(),
        "fds": sc.world.fds.len(),
        "events": sc.events,
        "faults": sc.faults,
        "workload": workload,
        "signature": sig,
    })
}

pub struct Known {
    pub property: String,
    pub oracle: String,
    pub detail_contains: Option<String>,
    pub what: String,
}

pub fn load_known() -> Vec<Known> {
    let p = format!("{}/known_findings.json", verif_dir());
    let Ok(s) = std::fs::read_to_string(p) else {
        return Vec::new();
    };
    let Ok(v) = serde_json::from_str::<Value>(&s) else {
        eprintln!("HARNESS-ERROR: known_findings.json does not parse");
        std::process::exit(2);
    };
    let mut out = Vec::new();
    if let Some(a) = v.get("findings").and_then(|x| x.as_array()) {
        for f in a {
            out.push(Known {
                property: f["property"].as_str().unwrap_or("").to_string(),
                oracle: f["oracle"].as_str().unwrap_or("").to_string(),
                detail_contains: f.get("detail_contains").and_then(|x| x.as_str()).map(|s| s.to_string()),
                what: f["what"].as_str().unwrap_or("").to_string(),
            });
        }
    }
    out
}

pub fn known_match<'a>(known: &'a [Known], prop: &str, oracle: &str, detail: &str) -> Option<&'a Known> {
    known.iter().find(|k| {
        k.property == prop
            && k.oracle == oracle
            && k.detail_contains.as_ref().map(|s| detail.contains(s.as_str())).unwrap_or(true)
    })
}

pub fn check(prop: &str, tier: &str) -> i32 {
    let t0 = std::time::Instant::now();
    let seed = verif_seed();
    let b = budget(prop, tier);
    let nw: u64 = std::env::var("VERIF_WORKERS")
        .ok()
        .and_then(|s| s.parse().ok())
        .unwrap_or_else(|| std::thread::available_parallelism().map(|n| n.get() as u64).unwrap_or(4).min(16));
    let exe = std::env::current_exe().unwrap();
    let tmp = std::env::temp_dir().join(format!("mdsim-{}-{}", prop, std::process::id()));
    let _ = std::fs::create_dir_all(&tmp);
    println!("mdsim: property {} tier {} seed {} cases {} workers {}", prop, tier, seed, b.cases, nw);
    let mut children = Vec::new();
    for w in 0..nw {
        let outp = tmp.join(format!("w{}.json", w));
        let child = std::process::Command::new(&exe)
            .args([
                "worker",
                prop,
                &seed.to_string(),
                &w.to_string(),
                &nw.to_string(),
                &b.cases.to_string(),
                outp.to_str().unwrap(),
                &b.wall_s.to_string(),
                "0",
            ])
            .spawn();
        match child {
            Ok(c) => children.push((w, c, outp)),
            Err(e) => {
                eprintln!("HARNESS-ERROR: cannot spawn worker: {}", e);
                return 2;
            }
        }
    }
    let mut merged = WorkerOut::default();
    // (index the worker was at, message, exit code of that index run alone: None = died again)
    let mut crashed: Vec<(u64, String, Option<i32>)> = Vec::new();
    let absorb = |merged: &mut WorkerOut, outp: &std::path::Path| -> bool {
        let Ok(s) = std::fs::read_to_string(outp) else {
            return false;
        };
        let v: Value = serde_json::from_str(&s).unwrap_or(Value::Null);
        merged.evaluations += v["evaluations"].as_u64().unwrap_or(0);
        merged.runs += v["runs"].as_u64().unwrap_or(0);
        merged.sim_ns = merged.sim_ns.saturating_add(v["sim_ns"].as_u64().unwrap_or(0));
        merged.sim_calls += v["sim_calls"].as_u64().unwrap_or(0);
        merged.stopped_early |= v["stopped_early"].as_bool().unwrap_or(false);
        let sl = (v["slowest"][0].as_u64().unwrap_or(0), v["slowest"][1].as_u64().unwrap_or(0));
        if sl.0 >= merged.slowest.0 {
            merged.slowest = sl;
        }
        merged.peak_rss_mib = merged.peak_rss_mib.max(v["peak_rss_mib"].as_u64().unwrap_or(0));
        for h in v["sigs"].as_array().cloned().unwrap_or_default() {
            if let Some(x) = h.as_str().and_then(|s| u64::from_str_radix(s, 16).ok()) {
                merged.sigs.insert(x);
            }
        }
        for h in v["nontrivial_sigs"].as_array().cloned().unwrap_or_default() {
            if let Some(x) = h.as_str().and_then(|s| u64::from_str_radix(s, 16).ok()) {
                merged.nontrivial_sigs.insert(x);
            }
        }
        if let Some(o) = v["counters"].as_object() {
            for (k, n) in o {
                *merged.counters.entry(k.clone()).or_insert(0) += n.as_u64().unwrap_or(0);
            }
        }
        for s in v["samples"].as_array().cloned().unwrap_or_default() {
            if merged.samples.len() < 3 {
                merged.samples.push(s);
            }
        }
        for x in v["violations"].as_array().cloned().unwrap_or_default() {
            merged.violations.push((
                x[0].as_u64().unwrap_or(0),
                x[1].as_str().unwrap_or("").to_string(),
                x[2].as_str().unwrap_or("").to_string(),
            ));
        }
        true
    };
    let cur_index = |outp: &std::path::Path| -> Option<u64> { std::fs::read_to_string(format!("{}.cur", outp.display())).ok().and_then(|c| c.trim().parse().ok()) };
    // (worker, result path, index it died at, message)
    let mut dead: Vec<(u64, std::path::PathBuf, Option<u64>, String)> = Vec::new();
    for (w, mut c, outp) in children {
        let st = c.wait();
        let ok = st.as_ref().map(|s| s.success()).unwrap_or(false);
        if !ok {
            dead.push((w, outp.clone(), cur_index(&outp), format!("worker {} died: {:?}", w, st)));
        } else if !absorb(&mut merged, &outp) {
            crashed.push((u64::MAX, format!("worker {} wrote no result", w), None));
        }
    }
    // Every index a worker died at is run alone, in a fresh process (all of them side by side). An
    // index that dies again is a finding about that index (C02's subject). A worker that died on an
    // index which passes on its own was lost to something outside the run (memory pressure, a loaded
    // machine tripping the watchdog): its whole share is evaluated again so that no index goes
    // unevaluated.
    let alone: Vec<Option<std::process::Child>> = dead
        .iter()
        .map(|(_, _, idx, _)| {
            idx.and_then(|i| {
                std::process::Command::new(&exe)
                    .args(["one", prop, &seed.to_string(), &i.to_string()])
                    .stdout(std::process::Stdio::null())
                    .spawn()
                    .ok()
            })
        })
        .collect();
    let alone: Vec<Option<i32>> = alone.into_iter().map(|c| c.and_then(|mut c| c.wait().ok()).and_then(|s| s.code())).collect();
    let mut again: Vec<(u64, std::path::PathBuf, String, std::process::Child)> = Vec::new();
    for ((w, outp, idx, msg), code) in dead.into_iter().zip(alone) {
        let Some(i) = idx else {
            crashed.push((u64::MAX, msg, None));
            continue;
        };
        if code == Some(0) || code == Some(1) {
            eprintln!("mdsim: {} at index {}, which passes alone; re-running its share", msg, i);
            *merged.counters.entry("worker_share_rerun".into()).or_insert(0) += 1;
            let c = std::process::Command::new(&exe)
                .args(["worker", prop, &seed.to_string(), &w.to_string(), &nw.to_string(), &b.cases.to_string(), outp.to_str().unwrap(), &b.wall_s.to_string(), "0"])
                .spawn();
            match c {
                Ok(c) => again.push((w, outp, msg, c)),
                Err(_) => crashed.push((i, msg, code)),
            }
        } else {
            crashed.push((i, msg, code));
        }
    }
    for (w, outp, msg, mut c) in again {
        let ok = c.wait().map(|s| s.success()).unwrap_or(false);
        if !ok || !absorb(&mut merged, &outp) {
            let i = cur_index(&outp).unwrap_or(u64::MAX);
            let code = std::process::Command::new(&exe)
                .args(["one", prop, &seed.to_string(), &i.to_string()])
                .stdout(std::process::Stdio::null())
                .status()
                .ok()
                .and_then(|s| s.code());
            crashed.push((i, format!("{} (and again, as worker {}, when its share was re-run)", msg, w), code));
        }
    }
    let _ = std::fs::remove_dir_all(&tmp);

    // worker deaths: re-run the single index in a fresh process to confirm
    let mut exit = 0;
    let mut nviol = 0u64;
    for (ci, (idx, msg, code)) in crashed.iter().enumerate() {
        eprintln!("mdsim: {} (index {})", msg, idx);
        if ci >= 3 {
            // every worker stops at its first fatal index; three are enough to report
            continue;
        }
        if *idx == u64::MAX {
            eprintln!("HARNESS-ERROR: worker failure without a current index");
            return 2;
        }
        let code = *code;
        if code == Some(101) || code == Some(2) {
            eprintln!("HARNESS-ERROR: the harness itself panicked on index {} (exit {:?}); not a property violation", idx, code);
            return 2;
        }
        let died = !(code == Some(0) || code == Some(1));
        if died {
            if prop == "C02" {
                let sc = profiles::generate(prop, seed, *idx);
                let path = write_replay(prop, &sc, "abort-or-hang", "worker process aborted or exceeded the wall-clock watchdog (confirmed by single-index re-run)", &[]);
                println!("VIOLATION property={} replay={}", prop, path);
                nviol += 1;
                exit = 1;
            } else {
                eprintln!("HARNESS-ERROR: index {} kills the worker (abort or hang); this is C02's subject, not {}'s", idx, prop);
                // counted in evidence, does not change this property's verdict
                *merged.counters.entry("aborted_worker".into()).or_insert(0) += 1;
            }
        } else {
            // the index passes on its own: the worker was lost to something outside the run (memory
            // pressure, an operator's signal). Its remaining indices are not evaluated; recorded in the
            // evidence, not a verdict on the property.
            eprintln!("mdsim: worker death at index {} did not reproduce on a single-index re-run; counted as lost_worker", idx);
            *merged.counters.entry("lost_worker".into()).or_insert(0) += 1;
        }
    }

    // violations
    let known = load_known();
    let mut by_oracle: BTreeMap<String, Vec<(u64, String)>> = BTreeMap::new();
    for (i, o, d) in &merged.violations {
        by_oracle.entry(o.clone()).or_default().push((*i, d.clone()));
    }
    let mut known_printed: BTreeSet<String> = BTreeSet::new();
    for (o, mut list) in by_oracle {
        list.sort();
        // split into known / unknown
        let unknown: Vec<&(u64, String)> = list.iter().filter(|(_, d)| known_match(&known, prop, &o, d).is_none()).collect();
        for (_, d) in list.iter() {
            if let Some(k) = known_match(&known, prop, &o, d) {
                let key = format!("{}|{}|{:?}", k.property, k.oracle, k.detail_contains);
                if known_printed.insert(key) {
                    println!("KNOWN-FINDING: property={} oracle={} {}", prop, o, k.what);
                }
            }
        }
        if let Some((idx, detail)) = unknown.first() {
            nviol += unknown.len() as u64;
            let mut sc = profiles::generate(prop, seed, *idx);
            // multi-run properties: continue with the concrete faulted scenario that violated
            let ev0 = oracle::evaluate(prop, &sc);
            if let Some(hit) = ev0.sweep_hit {
                if oracle::evaluate(prop, &hit).violations.iter().any(|x| x.oracle == o) {
                    sc = hit;
                }
            }
            let (min_sc, steps) = crate::shrink::shrink(prop, &sc, &o);
            let trace = crate::shrink::trace_of(prop, &min_sc);
            let path = write_replay(prop, &min_sc, &o, detail, &trace);
            println!("mdsim: violation oracle={} index={} shrink_steps={} detail={}", o, idx, steps, detail);
            // replay must reproduce in a fresh process
            // (a replay process lost to the machine - out of memory, watchdog on a loaded host - is
            // tried again; a replay that runs to its end and does not violate is a harness error)
            let mut reproduced = false;
            for _ in 0..3 {
                let st = std::process::Command::new(&exe).args(["replay", &path]).output();
                reproduced = st.map(|s| s.status.code() == Some(1)).unwrap_or(false);
                if reproduced {
                    break;
                }
            }
            if !reproduced {
                eprintln!("HARNESS-ERROR: replay of {} did not reproduce the violation", path);
                return 2;
            }
            println!("VIOLATION property={} replay={}", prop, path);
            exit = 1;
        }
    }

    let wall = t0.elapsed().as_secs_f64();
    crate::evidence::write(prop, tier, seed, &merged, nviol, wall, nw);
    // margin of the per-index watchdog on this machine (25 s of CPU time, more for the "over-" worlds
    // and after large transfers)
    println!("mdsim: slowest index {} took {} ms; peak resident set of a worker {} MiB", merged.slowest.1, merged.slowest.0, merged.peak_rss_mib);
    println!(
        "mdsim: {} evaluations ({} runs), {} distinct non-trivial signatures, {:.1}s, exit {}",
        merged.evaluations,
        merged.runs,
        merged.nontrivial_sigs.len(),
        wall,
        exit
    );
    exit
}

pub fn write_replay(prop: &str, sc: &Scenario, oracle: &str, detail: &str, trace: &[String]) -> String {
    let dir = format!("{}/replays", verif_dir());
    let _ = std::fs::create_dir_all(&dir);
    let path = format!("{}/{}-{}-{:x}.json", dir, prop, oracle.replace(['/', ' ', ':'], "_"), sc.seed);
    let v = json!({
        "property": prop,
        "oracle": oracle,
        "detail": detail,
        "scenario": sc,
        "trace": trace,
    });
    let mut f = std::fs::File::create(&path).expect("replay file");
    let _ = f.write_all(serde_json::to_string_pretty(&v).unwrap().as_bytes());
    path
}

/// Replays in a child process under a wall-clock watchdog, so that a replay file whose violation is
/// an abort or an endless loop reproduces as a violation instead of taking this process down.
pub fn replay_guarded(path: &str) -> i32 {
    use std::os::unix::process::ExitStatusExt;
    let exe = std::env::current_exe().unwrap();
    let st = std::process::Command::new(exe).args(["replay-inner", path]).status();
    match st {
        Ok(s) => {
            if let Some(c) = s.code() {
                return c;
            }
            let sig = s.signal().unwrap_or(0);
            let prop = std::fs::read_to_string(path)
                .ok()
                .and_then(|t| serde_json::from_str::<Value>(&t).ok())
                .and_then(|v| v["property"].as_str().map(|x| x.to_string()))
                .unwrap_or_default();
            println!("violation property={} oracle=abort-or-hang detail=the replay process was terminated by signal {} (abort, or wall-clock watchdog after 25 s)", prop, sig);
            println!("VIOLATION property={} replay={}", prop, path);
            1
        }
        Err(e) => {
            eprintln!("HARNESS-ERROR: cannot start the replay process: {}", e);
            2
        }
    }
}

pub fn replay(path: &str) -> i32 {
    arm_watchdog(25);
    let Ok(s) = std::fs::read_to_string(path) else {
        eprintln!("HARNESS-ERROR: cannot read {}", path);
        return 2;
    };
    let v: Value = match serde_json::from_str(&s) {
        Ok(v) => v,
        Err(e) => {
            eprintln!("HARNESS-ERROR: replay file does not parse: {}", e);
            return 2;
        }
    };
    let prop = v["property"].as_str().unwrap_or("").to_string();
    let want = v["oracle"].as_str().unwrap_or("").to_string();
    let sc: Scenario = match serde_json::from_value(v["scenario"].clone()) {
        Ok(s) => {
            let s: Scenario = s;
            if s.tags.iter().any(|t| t.starts_with("over-")) {
                arm_watchdog(240);
            }
            s
        }
        Err(e) => {
            eprintln!("HARNESS-ERROR: scenario does not parse: {}", e);
            return 2;
        }
    };
    let ev = oracle::evaluate(&prop, &sc);
    let mut hit = false;
    for vi in &ev.violations {
        println!("violation property={} oracle={} detail={}", vi.prop, vi.oracle, vi.detail);
        if vi.oracle == want {
            hit = true;
        }
    }
    println!("trace_hash={:x} runs={}", ev.trace_hash, ev.runs);
    if hit {
        println!("VIOLATION property={} replay={}", prop, path);
        1
    } else {
        println!("no violation with oracle id {:?} on this tree", want);
        0
    }
}

/// Per-index watchdog: an endless CPU-only loop in the writer makes no simulated call, so only a
/// timer can end it. The limit is on CPU time consumed (robust when the machine is busy: a slow but
/// progressing run is not killed), with a generous wall-clock alarm behind it for a real block.
pub fn arm_watchdog(cpu_seconds: u32) {
    WATCHDOG_BASE.store(cpu_seconds, std::sync::atomic::Ordering::Relaxed);
    set_prof_timer(cpu_seconds as i64);
    unsafe {
        libc::alarm(cpu_seconds.saturating_mul(12));
    }
}

pub fn disarm_watchdog() {
    WATCHDOG_BASE.store(0, std::sync::atomic::Ordering::Relaxed);
    set_prof_timer(0);
    unsafe {
        libc::alarm(0);
    }
}

/// the limit the watchdog was armed with (0: not armed)
static WATCHDOG_BASE: std::sync::atomic::AtomicU32 = std::sync::atomic::AtomicU32::new(0);

/// Progress the watchdog cannot see by itself starts it afresh: every 2^20 simulated calls of a run
/// (`bytes` = 0; their number is bounded by the run's call budget), and a simulated call that moves
/// `bytes` (tens of megabytes or more), with one second per 16 MiB on top of the limit: the cost of such a call, and of what the writer then does
/// with the bytes, grows with its size and with how slowly the machine faults fresh memory in (a 2 GiB
/// read that takes 5 s on one machine took more than 25 s of CPU time on another and was reported as a
/// hang). A loop of such calls ends at the run's byte budget (`kernel::max_bytes_moved`), a CPU-only
/// loop after such a call at the renewed limit.
pub fn watchdog_credit(bytes: u64) {
    let base = WATCHDOG_BASE.load(std::sync::atomic::Ordering::Relaxed);
    if base == 0 {
        return;
    }
    let limit = base.saturating_add((bytes >> 24).min(3600) as u32);
    set_prof_timer(limit as i64);
    unsafe {
        libc::alarm(limit.saturating_mul(12));
    }
}

/// setitimer(ITIMER_PROF): counts the CPU time this process consumes, SIGPROF (default action:
/// terminate) when it runs out
fn set_prof_timer(seconds: i64) {
    // struct itimerval { it_interval: timeval, it_value: timeval }
    let it: [i64; 4] = [0, 0, seconds, 0];
    unsafe {
        libc::syscall(libc::SYS_setitimer, 2i64, it.as_ptr(), std::ptr::null_mut::<i64>());
    }
}

pub fn one(prop: &str, seed: u64, idx: u64) -> i32 {
    let sc = profiles::generate(prop, seed, idx);
    arm_watchdog(if sc.tags.iter().any(|t| t.starts_with("over-")) { 240 } else { 25 });
    if std::env::var("VERIF_VERBOSE").is_ok() {
        // debugging aid: the base run's call trace and outcome
        let res = crate::run::run(&sc, &crate::run::RunOpts { trace: true, ..Default::default() });
        for l in crate::shrink::trace_of(prop, &sc) {
            println!("{}", l);
        }
        for (i, d) in res.dumps.iter().enumerate() {
            println!("request {} -> {}", i + 1, match &d.result { crate::run::DumpRes::Ok(v) => format!("ok {} bytes", v.len()), crate::run::DumpRes::Err(e) => format!("err {}", e), crate::run::DumpRes::Panic(p) => format!("panic {}", p) });
        }
    }
    let ev = oracle::evaluate(prop, &sc);
    for v in &ev.violations {
        println!("violation oracle={} detail={}", v.oracle, v.detail);
    }
    if ev.violations.is_empty() {
        0
    } else {
        1
    }
}

#[allow(dead_code)]
pub fn violations_brief(v: &[Violation]) -> String {
    v.iter().map(|x| x.oracle.clone()).collect::<Vec<_>>().join(",")
}

/// start-up self-test: every std / nix operation the writer uses must reach the simulated kernel
pub fn selftest() -> i32 {
    use crate::scenario::CallKind as K;
    let mut r = crate::rng::Rng::new(7);
    let mut b = crate::gen::build_world(&mut r, &crate::gen::WorldCfg::default());
    // a library whose build id is only reachable through its file (note in a section, section table
    // not loaded): makes the writer open and map the file, so that those seams are exercised too
    {
        let spec = crate::elfgen::ElfSpec { build_id: Some(r.bytes(20)), note_in_phdr: false, soname: Some("libfileonly.so.2".into()), sections: true, text_pages: 1, text_seed: 77, sections_at_end: true, ..Default::default() };
        let img = crate::elfgen::build(&spec);
        let path = "/usr/lib/libfileonly.so.2.0";
        let mem = img.file.clone();
        crate::gen::elf_regions(path, crate::gen::LIB_BASE + 0x5000_0000, &img, 5151, &mem, &mut b.world.regions);
        b.world.regions.sort_by_key(|g| g.start);
        b.world.files.push(crate::scenario::FileSpec { path: crate::scenario::B::s(path), content: crate::scenario::B(img.file.clone()), mode: 0o100644 });
    }
    let opts = crate::scenario::Opts { blamed: crate::gen::PID, ..Default::default() };
    let sc = crate::gen::simple_dump_scenario("selftest", 7, "selftest", b, opts);
    let a = crate::run::run(&sc, &crate::run::RunOpts::default());
    let b2 = crate::run::run(&sc, &crate::run::RunOpts::default());
    let Some(d) = a.dumps.first() else {
        eprintln!("HARNESS-ERROR: selftest produced no dump");
        return 2;
    };
    if !d.result.is_ok() {
        eprintln!("HARNESS-ERROR: selftest dump failed: {:?}", d.result);
        return 2;
    }
    for k in [K::Open, K::Read, K::Close, K::Statx, K::Stat, K::Readlink, K::Opendir, K::Readdir, K::Closedir, K::Mmap, K::PtraceAttach, K::PtraceDetach, K::PtraceGetregset, K::PtracePeekuser, K::Waitpid, K::Kill, K::Vmreadv, K::ClockGettime, K::Uname, K::DestWrite, K::DestSeek] {
        if a.kernel.gt.counts[k as usize] == 0 {
            eprintln!("HARNESS-ERROR: the simulated kernel never saw a {:?} call: an interposed symbol is being bypassed on this toolchain", k);
            return 2;
        }
    }
    if a.kernel.trace_hash != b2.kernel.trace_hash {
        eprintln!("HARNESS-ERROR: two executions of one scenario differ");
        return 2;
    }
    let img = d.result.image().unwrap();
    let dec = crate::decode::decode(img);
    if !dec.problems.is_empty() || dec.threads.as_ref().map(|t| t.len()) != Some(3) || dec.modules.as_ref().map(|m| m.len()).unwrap_or(0) < 3 {
        eprintln!("HARNESS-ERROR: selftest image does not decode as expected: {:?}", dec.problems);
        return 2;
    }
    println!("selftest ok: {} simulated calls, image {} bytes, {} modules", a.kernel.seq, img.len(), dec.modules.map(|m| m.len()).unwrap_or(0));
    0
}

/// determinism lane: same seeds, different processes and worker counts, compare trace hashes
pub fn determinism(props: &[String], n: u64) -> i32 {
    let exe = std::env::current_exe().unwrap();
    let seed = verif_seed();
    let tmp = std::env::temp_dir().join(format!("mdsim-det-{}", std::process::id()));
    let _ = std::fs::create_dir_all(&tmp);
    let mut total = 0u64;
    for prop in props {
        let mut maps: Vec<BTreeMap<u64, String>> = Vec::new();
        for (round, nw) in [(0u32, 16u64), (1, 3)] {
            let mut kids = Vec::new();
            for w in 0..nw {
                let outp = tmp.join(format!("{}-{}-{}.json", prop, round, w));
                let c = std::process::Command::new(&exe)
                    .args(["worker", prop, &seed.to_string(), &w.to_string(), &nw.to_string(), &n.to_string(), outp.to_str().unwrap(), "600", "1"])
                    .spawn()
                    .expect("spawn");
                kids.push((c, outp));
            }
            let mut m = BTreeMap::new();
            for (mut c, outp) in kids {
                let _ = c.wait();
                let s = std::fs::read_to_string(&outp).unwrap_or_default();
                let v: Value = serde_json::from_str(&s).unwrap_or(Value::Null);
                for x in v["trace_hashes"].as_array().cloned().unwrap_or_default() {
                    m.insert(x[0].as_u64().unwrap_or(0), x[1].as_str().unwrap_or("").to_string());
                }
            }
            maps.push(m);
        }
        let mut mism = 0;
        for (i, h) in &maps[0] {
            if maps[1].get(i) != Some(h) {
                mism += 1;
                if mism <= 5 {
                    eprintln!("determinism mismatch: {} index {}: {} vs {:?}", prop, i, h, maps[1].get(i));
                }
            }
        }
        println!("determinism {}: {} pairs, {} mismatches", prop, maps[0].len(), mism);
        total += mism;
        if maps[0].len() as u64 != n || maps[1].len() as u64 != n {
            eprintln!("HARNESS-ERROR: determinism lane lost results ({} / {} of {})", maps[0].len(), maps[1].len(), n);
            return 2;
        }
    }
    let _ = std::fs::remove_dir_all(&tmp);
    if total > 0 {
        eprintln!("HARNESS-ERROR: {} determinism mismatches", total);
        2
    } else {
        0
    }
}
