//! Strict minidump image decoder, independent of the `minidump` crate and of the layout code in
//! `minidump-common`: record sizes and field offsets are spelled out from the format description.

use std::collections::BTreeMap;

pub const ST_THREAD_LIST: u32 = 3;
pub const ST_MODULE_LIST: u32 = 4;
pub const ST_MEMORY_LIST: u32 = 5;
pub const ST_EXCEPTION: u32 = 6;
pub const ST_SYSTEM_INFO: u32 = 7;
pub const ST_HANDLE_DATA: u32 = 12;
pub const ST_MEMORY_INFO_LIST: u32 = 16;
pub const ST_THREAD_NAMES: u32 = 24;
pub const ST_LINUX_CPU_INFO: u32 = 0x4767_0003;
pub const ST_LINUX_PROC_STATUS: u32 = 0x4767_0004;
pub const ST_LINUX_LSB_RELEASE: u32 = 0x4767_0005;
pub const ST_LINUX_CMD_LINE: u32 = 0x4767_0006;
pub const ST_LINUX_ENVIRON: u32 = 0x4767_0007;
pub const ST_LINUX_AUXV: u32 = 0x4767_0008;
pub const ST_LINUX_MAPS: u32 = 0x4767_0009;
pub const ST_LINUX_DSO_DEBUG: u32 = 0x4767_000A;
pub const ST_MOZ_LINUX_LIMITS: u32 = 0x4d7a_0003;
pub const ST_MOZ_SOFT_ERRORS: u32 = 0x4d7a_0004;

pub const SZ_HEADER: u64 = 32;
pub const SZ_DIRENT: u64 = 12;
pub const SZ_THREAD: u64 = 48;
pub const SZ_MODULE: u64 = 108;
pub const SZ_MEMDESC: u64 = 16;
pub const SZ_EXCEPTION: u64 = 168;
pub const SZ_SYSINFO: u64 = 56;
pub const SZ_MEMINFO_HDR: u64 = 16;
pub const SZ_MEMINFO: u64 = 48;
pub const SZ_HANDLE_HDR: u64 = 16;
pub const SZ_HANDLE: u64 = 32;
pub const SZ_THREAD_NAME: u64 = 12;
pub const SZ_CONTEXT: u64 = 1232;
pub const SZ_DSO_DEBUG: u64 = 36;
pub const SZ_LINK_MAP: u64 = 20;

pub const RAW_STREAMS: [u32; 8] = [
    ST_LINUX_CPU_INFO,
    ST_LINUX_PROC_STATUS,
    ST_LINUX_LSB_RELEASE,
    ST_LINUX_CMD_LINE,
    ST_LINUX_ENVIRON,
    ST_LINUX_AUXV,
    ST_LINUX_MAPS,
    ST_MOZ_LINUX_LIMITS,
];

#[derive(Clone, Debug)]
pub struct Problem {
    pub code: &'static str,
    pub detail: String,
}

#[derive(Clone, Debug)]
pub struct Obj {
    pub off: u64,
    pub len: u64,
    pub kind: &'static str,
    pub owner: String,
    /// objects with the same non-zero alias class may share the identical byte range
    pub alias: u8,
}

pub const ALIAS_NONE: u8 = 0;
pub const ALIAS_STACK: u8 = 1;
pub const ALIAS_CTX: u8 = 2;

#[derive(Clone, Debug, Default)]
pub struct Ctx {
    pub context_flags: u32,
    pub mx_csr: u32,
    pub cs: u16,
    pub ds: u16,
    pub es: u16,
    pub fs: u16,
    pub gs: u16,
    pub ss: u16,
    pub eflags: u32,
    pub dr: [u64; 6],
    pub rax: u64,
    pub rcx: u64,
    pub rdx: u64,
    pub rbx: u64,
    pub rsp: u64,
    pub rbp: u64,
    pub rsi: u64,
    pub rdi: u64,
    pub r8: u64,
    pub r9: u64,
    pub r10: u64,
    pub r11: u64,
    pub r12: u64,
    pub r13: u64,
    pub r14: u64,
    pub r15: u64,
    pub rip: u64,
    pub float_save: Vec<u8>,
}

#[derive(Clone, Debug, Default)]
pub struct ThreadRec {
    pub tid: u32,
    pub suspend_count: u32,
    pub priority_class: u32,
    pub priority: u32,
    pub teb: u64,
    pub stack_start: u64,
    pub stack_size: u32,
    pub stack_rva: u32,
    pub ctx_size: u32,
    pub ctx_rva: u32,
    pub ctx: Option<Ctx>,
}

#[derive(Clone, Debug, Default)]
pub struct ModRec {
    pub base: u64,
    pub size: u32,
    pub name_rva: u32,
    pub name: Option<String>,
    pub version: Vec<u32>,
    pub cv_size: u32,
    pub cv_rva: u32,
    pub cv: Vec<u8>,
    pub misc_size: u32,
    pub misc_rva: u32,
}

#[derive(Clone, Debug, Default)]
pub struct MemDesc {
    pub start: u64,
    pub size: u32,
    pub rva: u32,
}

#[derive(Clone, Debug, Default)]
pub struct ExcRec {
    pub tid: u32,
    pub code: u32,
    pub flags: u32,
    pub record: u64,
    pub address: u64,
    pub nparams: u32,
    pub ctx_size: u32,
    pub ctx_rva: u32,
    pub ctx: Option<Ctx>,
}

#[derive(Clone, Debug, Default)]
pub struct SysInfo {
    pub arch: u16,
    pub level: u16,
    pub revision: u16,
    pub nproc: u8,
    pub product_type: u8,
    pub platform: u32,
    pub csd_rva: u32,
    pub csd: Option<String>,
    pub vendor: Vec<u8>,
}

#[derive(Clone, Debug, Default)]
pub struct MemInfo {
    pub base: u64,
    pub alloc_base: u64,
    pub alloc_prot: u32,
    pub size: u64,
    pub state: u32,
    pub prot: u32,
    pub ty: u32,
}

#[derive(Clone, Debug, Default)]
pub struct Handle {
    pub handle: u64,
    pub type_rva: u32,
    pub name_rva: u32,
    pub name: Option<String>,
    pub attributes: u32,
}

#[derive(Clone, Debug, Default)]
pub struct Dso {
    pub version: u32,
    pub map_rva: u32,
    pub count: u32,
    pub brk: u64,
    pub ldbase: u64,
    pub dynamic: u64,
    pub dyn_bytes: Vec<u8>,
    /// (l_addr, name, l_ld)
    pub links: Vec<(u64, Option<String>, u64)>,
}

#[derive(Clone, Debug, Default)]
pub struct DirEnt {
    pub ty: u32,
    pub size: u32,
    pub rva: u32,
}

#[derive(Clone, Debug, Default)]
pub struct Decoded {
    pub signature: u32,
    pub version: u32,
    pub stream_count: u32,
    pub dir_rva: u32,
    pub time: u32,
    pub dir: Vec<DirEnt>,
    pub threads: Option<Vec<ThreadRec>>,
    pub modules: Option<Vec<ModRec>>,
    pub memory: Option<Vec<MemDesc>>,
    pub exception: Option<ExcRec>,
    pub sysinfo: Option<SysInfo>,
    pub meminfo: Option<Vec<MemInfo>>,
    pub handles: Option<Vec<Handle>>,
    pub names: Option<Vec<(u32, u64, Option<String>)>>,
    pub raw: BTreeMap<u32, Vec<u8>>,
    pub dso: Option<Dso>,
    pub soft_errors: Option<Vec<u8>>,
    pub objects: Vec<Obj>,
    pub problems: Vec<Problem>,
    /// stream type -> (rva, size) for present streams
    pub streams: BTreeMap<u32, (u32, u32)>,
}

struct Rd<'a> {
    b: &'a [u8],
}

impl<'a> Rd<'a> {
    fn has(&self, off: u64, len: u64) -> bool {
        off.checked_add(len).map(|e| e <= self.b.len() as u64).unwrap_or(false)
    }
    fn u8(&self, off: u64) -> u8 {
        self.b[off as usize]
    }
    fn u16(&self, off: u64) -> u16 {
        u16::from_le_bytes(self.b[off as usize..off as usize + 2].try_into().unwrap())
    }
    fn u32(&self, off: u64) -> u32 {
        u32::from_le_bytes(self.b[off as usize..off as usize + 4].try_into().unwrap())
    }
    fn u64(&self, off: u64) -> u64 {
        u64::from_le_bytes(self.b[off as usize..off as usize + 8].try_into().unwrap())
    }
    fn bytes(&self, off: u64, len: u64) -> &'a [u8] {
        &self.b[off as usize..(off + len) as usize]
    }
}

impl Decoded {
    fn prob(&mut self, code: &'static str, detail: String) {
        self.problems.push(Problem { code, detail });
    }
    fn obj(&mut self, off: u64, len: u64, kind: &'static str, owner: String, alias: u8) {
        if len > 0 {
            self.objects.push(Obj { off, len, kind, owner, alias });
        }
    }
}

fn decode_ctx(r: &Rd, off: u64) -> Ctx {
    Ctx {
        context_flags: r.u32(off + 48),
        mx_csr: r.u32(off + 52),
        cs: r.u16(off + 56),
        ds: r.u16(off + 58),
        es: r.u16(off + 60),
        fs: r.u16(off + 62),
        gs: r.u16(off + 64),
        ss: r.u16(off + 66),
        eflags: r.u32(off + 68),
        dr: [
            r.u64(off + 72),
            r.u64(off + 80),
            r.u64(off + 88),
            r.u64(off + 96),
            r.u64(off + 104),
            r.u64(off + 112),
        ],
        rax: r.u64(off + 120),
        rcx: r.u64(off + 128),
        rdx: r.u64(off + 136),
        rbx: r.u64(off + 144),
        rsp: r.u64(off + 152),
        rbp: r.u64(off + 160),
        rsi: r.u64(off + 168),
        rdi: r.u64(off + 176),
        r8: r.u64(off + 184),
        r9: r.u64(off + 192),
        r10: r.u64(off + 200),
        r11: r.u64(off + 208),
        r12: r.u64(off + 216),
        r13: r.u64(off + 224),
        r14: r.u64(off + 232),
        r15: r.u64(off + 240),
        rip: r.u64(off + 248),
        float_save: r.bytes(off + 256, 512).to_vec(),
    }
}

/// MINIDUMP_STRING at rva: u32 byte length + UTF-16LE units (no terminator required).
fn decode_string(d: &mut Decoded, r: &Rd, rva: u64, owner: &str) -> Option<String> {
    if !r.has(rva, 4) {
        d.prob("string-outside", format!("{}: string header at {:#x} outside image of {} bytes", owner, rva, r.b.len()));
        return None;
    }
    let len = r.u32(rva) as u64;
    if len % 2 != 0 {
        d.prob("string-odd", format!("{}: string at {:#x} has odd byte length {}", owner, rva, len));
    }
    if !r.has(rva + 4, len) {
        d.prob("string-overrun", format!("{}: string at {:#x} of {} bytes overruns image", owner, rva, len));
        return None;
    }
    d.obj(rva, 4 + len, "string", owner.to_string(), ALIAS_NONE);
    let units: Vec<u16> = r
        .bytes(rva + 4, len & !1)
        .chunks(2)
        .map(|c| u16::from_le_bytes([c[0], c[1]]))
        .collect();
    match String::from_utf16(&units) {
        Ok(s) => Some(s),
        Err(_) => {
            d.prob("string-utf16", format!("{}: string at {:#x} is not valid UTF-16", owner, rva));
            None
        }
    }
}

/// Decode `img`. In prefix mode objects that do not fit are reported with code "absent-*".
pub fn decode(img: &[u8]) -> Decoded {
    let r = Rd { b: img };
    let mut d = Decoded::default();
    if !r.has(0, SZ_HEADER) {
        d.prob("header-short", format!("image has {} bytes, header needs 32", img.len()));
        return d;
    }
    d.signature = r.u32(0);
    d.version = r.u32(4);
    d.stream_count = r.u32(8);
    d.dir_rva = r.u32(12);
    d.time = r.u32(20);
    d.obj(0, SZ_HEADER, "header", "header".into(), ALIAS_NONE);
    if d.signature != 0x504d_444d {
        d.prob("header-signature", format!("signature {:#x}", d.signature));
    }
    if d.version & 0xffff != 0xa793 {
        d.prob("header-version", format!("version {:#x}", d.version));
    }
    let dir_len = d.stream_count as u64 * SZ_DIRENT;
    if !r.has(d.dir_rva as u64, dir_len) {
        d.prob(
            "directory-outside",
            format!("directory at {:#x} with {} entries outside image of {} bytes", d.dir_rva, d.stream_count, img.len()),
        );
        return d;
    }
    d.obj(d.dir_rva as u64, dir_len, "directory", "directory".into(), ALIAS_NONE);
    for i in 0..d.stream_count as u64 {
        let o = d.dir_rva as u64 + i * SZ_DIRENT;
        d.dir.push(DirEnt {
            ty: r.u32(o),
            size: r.u32(o + 4),
            rva: r.u32(o + 8),
        });
    }
    let dir = d.dir.clone();
    let mut seen: BTreeMap<u32, usize> = BTreeMap::new();
    for (i, e) in dir.iter().enumerate() {
        if e.ty == 0 && e.size == 0 && e.rva == 0 {
            continue;
        }
        if e.ty == 0 {
            d.prob("dirent-unused-nonzero", format!("entry {} has type 0 but size {} rva {:#x}", i, e.size, e.rva));
            continue;
        }
        if let Some(prev) = seen.insert(e.ty, i) {
            d.prob("dirent-duplicate-type", format!("stream type {:#x} in entries {} and {}", e.ty, prev, i));
            continue;
        }
        if !r.has(e.rva as u64, e.size as u64) {
            d.prob(
                "stream-outside",
                format!("stream {:#x} at {:#x}+{} outside image of {} bytes", e.ty, e.rva, e.size, img.len()),
            );
            continue;
        }
        d.streams.insert(e.ty, (e.rva, e.size));
        d.obj(e.rva as u64, e.size as u64, "stream", format!("stream {:#x}", e.ty), ALIAS_NONE);
        decode_stream(&mut d, &r, e);
    }
    d
}

fn decode_stream(d: &mut Decoded, r: &Rd, e: &DirEnt) {
    let rva = e.rva as u64;
    let size = e.size as u64;
    match e.ty {
        ST_THREAD_LIST => {
            if size < 4 {
                d.prob("threadlist-size", format!("size {}", size));
                return;
            }
            let n = r.u32(rva) as u64;
            if size != 4 + n * SZ_THREAD {
                d.prob("threadlist-size", format!("{} threads imply {} bytes, stream has {}", n, 4 + n * SZ_THREAD, size));
                return;
            }
            let mut v = Vec::new();
            for i in 0..n {
                let o = rva + 4 + i * SZ_THREAD;
                let mut t = ThreadRec {
                    tid: r.u32(o),
                    suspend_count: r.u32(o + 4),
                    priority_class: r.u32(o + 8),
                    priority: r.u32(o + 12),
                    teb: r.u64(o + 16),
                    stack_start: r.u64(o + 24),
                    stack_size: r.u32(o + 32),
                    stack_rva: r.u32(o + 36),
                    ctx_size: r.u32(o + 40),
                    ctx_rva: r.u32(o + 44),
                    ctx: None,
                };
                let owner = format!("thread {}", t.tid);
                if t.stack_size > 0 {
                    if r.has(t.stack_rva as u64, t.stack_size as u64) {
                        d.obj(t.stack_rva as u64, t.stack_size as u64, "stack", owner.clone(), ALIAS_STACK);
                    } else {
                        d.prob("stack-outside", format!("{}: stack at {:#x}+{} outside image", owner, t.stack_rva, t.stack_size));
                    }
                }
                if t.ctx_size > 0 {
                    if t.ctx_size as u64 != SZ_CONTEXT {
                        d.prob("context-size", format!("{}: context size {}", owner, t.ctx_size));
                    } else if r.has(t.ctx_rva as u64, SZ_CONTEXT) {
                        d.obj(t.ctx_rva as u64, SZ_CONTEXT, "context", owner.clone(), ALIAS_CTX);
                        t.ctx = Some(decode_ctx(r, t.ctx_rva as u64));
                    } else {
                        d.prob("context-outside", format!("{}: context at {:#x} outside image", owner, t.ctx_rva));
                    }
                }
                v.push(t);
            }
            d.threads = Some(v);
        }
        ST_MODULE_LIST => {
            if size < 4 {
                d.prob("modulelist-size", format!("size {}", size));
                return;
            }
            let n = r.u32(rva) as u64;
            if size != 4 + n * SZ_MODULE {
                d.prob("modulelist-size", format!("{} modules imply {} bytes, stream has {}", n, 4 + n * SZ_MODULE, size));
                return;
            }
            let mut v = Vec::new();
            for i in 0..n {
                let o = rva + 4 + i * SZ_MODULE;
                let mut m = ModRec {
                    base: r.u64(o),
                    size: r.u32(o + 8),
                    name_rva: r.u32(o + 20),
                    name: None,
                    version: (0..13).map(|k| r.u32(o + 24 + k * 4)).collect(),
                    cv_size: r.u32(o + 76),
                    cv_rva: r.u32(o + 80),
                    cv: Vec::new(),
                    misc_size: r.u32(o + 84),
                    misc_rva: r.u32(o + 88),
                };
                let owner = format!("module {} @{:#x}", i, m.base);
                m.name = decode_string(d, r, m.name_rva as u64, &owner);
                if m.cv_size > 0 {
                    if r.has(m.cv_rva as u64, m.cv_size as u64) {
                        d.obj(m.cv_rva as u64, m.cv_size as u64, "cv", owner.clone(), ALIAS_NONE);
                        m.cv = r.bytes(m.cv_rva as u64, m.cv_size as u64).to_vec();
                        if m.cv_size < 4 {
                            d.prob("cv-short", format!("{}: cv record of {} bytes", owner, m.cv_size));
                        }
                    } else {
                        d.prob("cv-outside", format!("{}: cv at {:#x}+{} outside image", owner, m.cv_rva, m.cv_size));
                    }
                }
                if m.misc_size > 0 {
                    if r.has(m.misc_rva as u64, m.misc_size as u64) {
                        d.obj(m.misc_rva as u64, m.misc_size as u64, "misc", owner.clone(), ALIAS_NONE);
                    } else {
                        d.prob("misc-outside", format!("{}: misc record outside image", owner));
                    }
                }
                v.push(m);
            }
            d.modules = Some(v);
        }
        ST_MEMORY_LIST => {
            if size < 4 {
                d.prob("memlist-size", format!("size {}", size));
                return;
            }
            let n = r.u32(rva) as u64;
            if size != 4 + n * SZ_MEMDESC {
                d.prob("memlist-size", format!("{} regions imply {} bytes, stream has {}", n, 4 + n * SZ_MEMDESC, size));
                return;
            }
            let mut v = Vec::new();
            for i in 0..n {
                let o = rva + 4 + i * SZ_MEMDESC;
                let m = MemDesc {
                    start: r.u64(o),
                    size: r.u32(o + 8),
                    rva: r.u32(o + 12),
                };
                if m.size > 0 {
                    if r.has(m.rva as u64, m.size as u64) {
                        d.obj(m.rva as u64, m.size as u64, "memory", format!("memory {:#x}", m.start), ALIAS_STACK);
                    } else {
                        d.prob("memory-outside", format!("memory {:#x}: bytes at {:#x}+{} outside image", m.start, m.rva, m.size));
                    }
                }
                v.push(m);
            }
            d.memory = Some(v);
        }
        ST_EXCEPTION => {
            if size != SZ_EXCEPTION {
                d.prob("exception-size", format!("size {}", size));
                return;
            }
            let mut x = ExcRec {
                tid: r.u32(rva),
                code: r.u32(rva + 8),
                flags: r.u32(rva + 12),
                record: r.u64(rva + 16),
                address: r.u64(rva + 24),
                nparams: r.u32(rva + 32),
                ctx_size: r.u32(rva + 160),
                ctx_rva: r.u32(rva + 164),
                ctx: None,
            };
            if x.ctx_size > 0 {
                if x.ctx_size as u64 != SZ_CONTEXT {
                    d.prob("context-size", format!("exception context size {}", x.ctx_size));
                } else if r.has(x.ctx_rva as u64, SZ_CONTEXT) {
                    d.obj(x.ctx_rva as u64, SZ_CONTEXT, "context", "exception".into(), ALIAS_CTX);
                    x.ctx = Some(decode_ctx(r, x.ctx_rva as u64));
                } else {
                    d.prob("context-outside", format!("exception context at {:#x} outside image", x.ctx_rva));
                }
            }
            d.exception = Some(x);
        }
        ST_SYSTEM_INFO => {
            if size != SZ_SYSINFO {
                d.prob("sysinfo-size", format!("size {}", size));
                return;
            }
            let mut s = SysInfo {
                arch: r.u16(rva),
                level: r.u16(rva + 2),
                revision: r.u16(rva + 4),
                nproc: r.u8(rva + 6),
                product_type: r.u8(rva + 7),
                platform: r.u32(rva + 20),
                csd_rva: r.u32(rva + 24),
                csd: None,
                vendor: r.bytes(rva + 32, 12).to_vec(),
            };
            if s.csd_rva != 0 {
                s.csd = decode_string(d, r, s.csd_rva as u64, "system info csd");
            }
            d.sysinfo = Some(s);
        }
        ST_MEMORY_INFO_LIST => {
            if size < SZ_MEMINFO_HDR {
                d.prob("meminfo-size", format!("size {}", size));
                return;
            }
            let sh = r.u32(rva) as u64;
            let se = r.u32(rva + 4) as u64;
            let n = r.u64(rva + 8);
            if sh != SZ_MEMINFO_HDR || se != SZ_MEMINFO {
                d.prob("meminfo-header", format!("header size {} entry size {}", sh, se));
                return;
            }
            if n.checked_mul(SZ_MEMINFO).and_then(|x| x.checked_add(SZ_MEMINFO_HDR)) != Some(size) {
                d.prob("meminfo-size", format!("{} entries imply {} bytes, stream has {}", n, 16 + n.wrapping_mul(48), size));
                return;
            }
            let mut v = Vec::new();
            for i in 0..n {
                let o = rva + 16 + i * SZ_MEMINFO;
                v.push(MemInfo {
                    base: r.u64(o),
                    alloc_base: r.u64(o + 8),
                    alloc_prot: r.u32(o + 16),
                    size: r.u64(o + 24),
                    state: r.u32(o + 32),
                    prot: r.u32(o + 36),
                    ty: r.u32(o + 40),
                });
            }
            d.meminfo = Some(v);
        }
        ST_HANDLE_DATA => {
            if size < SZ_HANDLE_HDR {
                d.prob("handles-size", format!("size {}", size));
                return;
            }
            let sh = r.u32(rva) as u64;
            let sd = r.u32(rva + 4) as u64;
            let n = r.u32(rva + 8) as u64;
            if sh != SZ_HANDLE_HDR || sd != SZ_HANDLE {
                d.prob("handles-header", format!("header size {} descriptor size {}", sh, sd));
                return;
            }
            if size != 16 + n * SZ_HANDLE {
                d.prob("handles-size", format!("{} descriptors imply {} bytes, stream has {}", n, 16 + n * 32, size));
                return;
            }
            let mut v = Vec::new();
            for i in 0..n {
                let o = rva + 16 + i * SZ_HANDLE;
                let mut h = Handle {
                    handle: r.u64(o),
                    type_rva: r.u32(o + 8),
                    name_rva: r.u32(o + 12),
                    name: None,
                    attributes: r.u32(o + 16),
                };
                let owner = format!("handle {}", h.handle);
                if h.type_rva != 0 {
                    let _ = decode_string(d, r, h.type_rva as u64, &owner);
                }
                if h.name_rva != 0 {
                    h.name = decode_string(d, r, h.name_rva as u64, &owner);
                }
                v.push(h);
            }
            d.handles = Some(v);
        }
        ST_THREAD_NAMES => {
            if size < 4 {
                d.prob("names-size", format!("size {}", size));
                return;
            }
            let n = r.u32(rva) as u64;
            if size != 4 + n * SZ_THREAD_NAME {
                d.prob("names-size", format!("{} names imply {} bytes, stream has {}", n, 4 + n * 12, size));
                return;
            }
            let mut v = Vec::new();
            for i in 0..n {
                let o = rva + 4 + i * SZ_THREAD_NAME;
                let tid = r.u32(o);
                let nrva = r.u64(o + 4);
                let owner = format!("thread name {} (tid {})", i, tid);
                let name = decode_string(d, r, nrva, &owner);
                v.push((tid, nrva, name));
            }
            d.names = Some(v);
        }
        ST_LINUX_DSO_DEBUG => {
            if size < SZ_DSO_DEBUG {
                d.prob("dso-size", format!("size {}", size));
                return;
            }
            let mut s = Dso {
                version: r.u32(rva),
                map_rva: r.u32(rva + 4),
                count: r.u32(rva + 8),
                brk: r.u64(rva + 12),
                ldbase: r.u64(rva + 20),
                dynamic: r.u64(rva + 28),
                dyn_bytes: r.bytes(rva + 36, size - 36).to_vec(),
                links: Vec::new(),
            };
            if (size - 36) % 16 != 0 {
                d.prob("dso-size", format!("dynamic bytes {} not a multiple of 16", size - 36));
            }
            if s.count > 0 {
                let alen = s.count as u64 * SZ_LINK_MAP;
                if r.has(s.map_rva as u64, alen) {
                    d.obj(s.map_rva as u64, alen, "linkmap", "dso debug".into(), ALIAS_NONE);
                    for i in 0..s.count as u64 {
                        let o = s.map_rva as u64 + i * SZ_LINK_MAP;
                        let addr = r.u64(o);
                        let nrva = r.u32(o + 8);
                        let ld = r.u64(o + 12);
                        let name = decode_string(d, r, nrva as u64, &format!("link map {}", i));
                        s.links.push((addr, name, ld));
                    }
                } else {
                    d.prob("linkmap-outside", format!("link map array at {:#x} x{} outside image", s.map_rva, s.count));
                }
            }
            d.dso = Some(s);
        }
        ST_MOZ_SOFT_ERRORS => {
            d.soft_errors = Some(r.bytes(rva, size).to_vec());
        }
        t if RAW_STREAMS.contains(&t) => {
            d.raw.insert(t, r.bytes(rva, size).to_vec());
        }
        t => {
            d.prob("stream-unknown-type", format!("stream type {:#x}", t));
        }
    }
}

/// Interval sweep: report overlaps between objects, honouring the allowed aliasing.
pub fn overlaps(d: &Decoded) -> Vec<Problem> {
    let mut out = Vec::new();
    // stream bodies contain their own records; referenced blobs must not intersect other objects.
    let mut v: Vec<&Obj> = d.objects.iter().collect();
    v.sort_by_key(|o| (o.off, o.len));
    // collapse allowed aliases (identical range, same non-zero alias class)
    let mut uniq: Vec<&Obj> = Vec::new();
    for o in v {
        if let Some(last) = uniq.last() {
            let exc_pair = (last.owner == "exception") != (o.owner == "exception");
            if last.off == o.off
                && last.len == o.len
                && last.alias != 0
                && last.alias == o.alias
                && (last.kind != o.kind || exc_pair)
            {
                continue;
            }
        }
        uniq.push(o);
    }
    let mut max_end = 0u64;
    let mut max_obj: Option<&Obj> = None;
    for o in uniq {
        if let Some(m) = max_obj {
            if o.off < max_end {
                out.push(Problem {
                    code: "overlap",
                    detail: format!(
                        "{} [{}] at {:#x}+{} overlaps {} [{}] at {:#x}+{}",
                        o.kind, o.owner, o.off, o.len, m.kind, m.owner, m.off, m.len
                    ),
                });
            }
        }
        if o.off + o.len > max_end {
            max_end = o.off + o.len;
            max_obj = Some(o);
        }
    }
    out
}

/// Cross-check the decoder's size table against the types the writer serialises
/// (a disagreement is a harness error, never a violation).
pub fn selfcheck_sizes() -> Result<(), String> {
    use minidump_common::format as f;
    use scroll::ctx::SizeWith;
    let le = scroll::Endian::Little;
    let checks: Vec<(&str, u64, usize)> = vec![
        ("header", SZ_HEADER, f::MINIDUMP_HEADER::size_with(&le)),
        ("dirent", SZ_DIRENT, f::MINIDUMP_DIRECTORY::size_with(&le)),
        ("thread", SZ_THREAD, f::MINIDUMP_THREAD::size_with(&le)),
        ("module", SZ_MODULE, f::MINIDUMP_MODULE::size_with(&le)),
        ("memdesc", SZ_MEMDESC, f::MINIDUMP_MEMORY_DESCRIPTOR::size_with(&le)),
        ("exception", SZ_EXCEPTION, f::MINIDUMP_EXCEPTION_STREAM::size_with(&le)),
        ("sysinfo", SZ_SYSINFO, f::MINIDUMP_SYSTEM_INFO::size_with(&le)),
        ("meminfo_hdr", SZ_MEMINFO_HDR, f::MINIDUMP_MEMORY_INFO_LIST::size_with(&le)),
        ("meminfo", SZ_MEMINFO, f::MINIDUMP_MEMORY_INFO::size_with(&le)),
        ("handle_hdr", SZ_HANDLE_HDR, f::MINIDUMP_HANDLE_DATA_STREAM::size_with(&le)),
        ("handle", SZ_HANDLE, f::MINIDUMP_HANDLE_DESCRIPTOR::size_with(&le)),
        ("thread_name", SZ_THREAD_NAME, f::MINIDUMP_THREAD_NAME::size_with(&le)),
        ("context", SZ_CONTEXT, f::CONTEXT_AMD64::size_with(&le)),
        ("dso_debug", SZ_DSO_DEBUG, f::DSO_DEBUG_64::size_with(&le)),
        ("link_map", SZ_LINK_MAP, f::LINK_MAP_64::size_with(&le)),
    ];
    for (n, mine, theirs) in checks {
        if mine != theirs as u64 {
            return Err(format!("decoder size table: {} is {} here, {} in minidump-common", n, mine, theirs));
        }
    }
    Ok(())
}
