//! Conformance lane: the same micro-scenarios are executed against the simulated kernel and
//! against the REAL kernel (a forked child of this process) and the observable results are
//! compared. A divergence is a harness error (exit 2), never a property violation. This lane uses
//! real scheduling and is therefore kept out of every property verdict.

use crate::kernel::*;
use crate::scenario::*;
use libc::{c_int, c_long, c_void};

const BASE: u64 = 0x7e12_3400_0000;
const PAGE: u64 = 0x1000;

/// layout (pages): 0-1 rw | 2 hole | 3 r-- | 4 PROT_NONE | 5 rw | 6 hole
fn layout() -> Vec<(u64, u64, &'static str)> {
    vec![(0, 2, "rw-p"), (3, 1, "r--p"), (4, 1, "---p"), (5, 1, "rw-p")]
}

fn pat(addr: u64) -> u8 {
    (crate::rng::mix64(addr, 0xc0f) & 0xff) as u8
}

trait Sys {
    fn vm_read(&mut self, addr: u64, len: usize) -> Result<Vec<u8>, i32>;
    fn mem_read(&mut self, addr: u64, len: usize) -> Result<Vec<u8>, i32>;
    fn peek(&mut self, addr: u64) -> Result<u64, i32>;
    fn attach(&mut self) -> Result<(), i32>;
    /// Ok(raw status) | Err(errno)
    fn wait(&mut self) -> Result<i32, i32>;
    fn cont(&mut self, sig: i32) -> Result<(), i32>;
    fn detach(&mut self) -> Result<(), i32>;
    fn kill(&mut self, sig: i32) -> Result<(), i32>;
    fn send_usr1(&mut self);
    /// state letter from /proc/pid/stat after things settled
    fn state(&mut self) -> char;
    fn delivered(&mut self) -> u64;
}

// ------------------------------------------------------------------------------------------
// real kernel

struct Real {
    pid: i32,
    shared: *mut u64,
    memfd: i32,
}

static mut SHARED: *mut u64 = std::ptr::null_mut();

extern "C" fn on_usr1(_s: c_int) {
    unsafe {
        if !SHARED.is_null() {
            let p = SHARED;
            std::ptr::write_volatile(p, std::ptr::read_volatile(p) + 1);
        }
    }
}

fn errno() -> i32 {
    unsafe { *libc::__errno_location() }
}

impl Real {
    fn spawn() -> Option<Real> {
        unsafe {
            let shared = libc::mmap(std::ptr::null_mut(), 4096, libc::PROT_READ | libc::PROT_WRITE, libc::MAP_SHARED | libc::MAP_ANONYMOUS, -1, 0) as *mut u64;
            if shared as isize == -1 {
                return None;
            }
            *shared = 0;
            *shared.add(1) = 0; // ready flag
            SHARED = shared;
            let pid = libc::fork();
            if pid < 0 {
                return None;
            }
            if pid == 0 {
                // child: async-signal-safe calls only
                for (pg, n, perms) in layout() {
                    let addr = BASE + pg * PAGE;
                    let p = libc::mmap(addr as *mut c_void, (n * PAGE) as usize, libc::PROT_READ | libc::PROT_WRITE, libc::MAP_PRIVATE | libc::MAP_ANONYMOUS | libc::MAP_FIXED_NOREPLACE, -1, 0);
                    if p as u64 != addr {
                        libc::_exit(41);
                    }
                    for i in 0..(n * PAGE) {
                        *((addr + i) as *mut u8) = pat(addr + i);
                    }
                    let prot = match perms {
                        "rw-p" => libc::PROT_READ | libc::PROT_WRITE,
                        "r--p" => libc::PROT_READ,
                        _ => libc::PROT_NONE,
                    };
                    libc::mprotect(addr as *mut c_void, (n * PAGE) as usize, prot);
                }
                let mut sa: libc::sigaction = std::mem::zeroed();
                sa.sa_sigaction = on_usr1 as usize;
                libc::sigaction(libc::SIGUSR1, &sa, std::ptr::null_mut());
                std::ptr::write_volatile(shared.add(1), 1);
                loop {
                    let ts = libc::timespec { tv_sec: 0, tv_nsec: 2_000_000 };
                    libc::syscall(libc::SYS_nanosleep, &ts as *const libc::timespec, 0usize);
                }
            }
            // parent
            let t0 = std::time::Instant::now();
            while std::ptr::read_volatile(shared.add(1)) == 0 {
                if t0.elapsed().as_secs() > 5 {
                    libc::syscall(libc::SYS_kill, pid, libc::SIGKILL);
                    return None;
                }
                std::thread::yield_now();
            }
            let path = format!("/proc/{}/mem\0", pid);
            let memfd = libc::syscall(libc::SYS_openat, libc::AT_FDCWD, path.as_ptr(), libc::O_RDONLY, 0) as i32;
            Some(Real { pid, shared, memfd })
        }
    }

    fn stat_state(&self) -> char {
        let s = std::fs::read_to_string(format!("/proc/{}/stat", self.pid)).unwrap_or_default();
        s.rsplit(')').next().and_then(|r| r.trim_start().chars().next()).unwrap_or('?')
    }

    fn reap(&mut self) {
        unsafe {
            libc::syscall(libc::SYS_kill, self.pid, libc::SIGKILL);
            let mut st = 0;
            libc::syscall(libc::SYS_wait4, self.pid, &mut st as *mut c_int, libc::__WALL, 0usize);
            if self.memfd >= 0 {
                libc::syscall(libc::SYS_close, self.memfd);
            }
        }
    }
}

impl Sys for Real {
    fn vm_read(&mut self, addr: u64, len: usize) -> Result<Vec<u8>, i32> {
        let mut buf = vec![0u8; len];
        let l = libc::iovec { iov_base: buf.as_mut_ptr() as *mut c_void, iov_len: len };
        let r = libc::iovec { iov_base: addr as *mut c_void, iov_len: len };
        let n = unsafe { libc::syscall(libc::SYS_process_vm_readv, self.pid, &l as *const libc::iovec, 1usize, &r as *const libc::iovec, 1usize, 0usize) };
        if n < 0 {
            Err(errno())
        } else {
            buf.truncate(n as usize);
            Ok(buf)
        }
    }
    fn mem_read(&mut self, addr: u64, len: usize) -> Result<Vec<u8>, i32> {
        let mut buf = vec![0u8; len];
        let n = unsafe { libc::syscall(libc::SYS_pread64, self.memfd, buf.as_mut_ptr(), len, addr as i64) };
        if n < 0 {
            Err(errno())
        } else {
            buf.truncate(n as usize);
            Ok(buf)
        }
    }
    fn peek(&mut self, addr: u64) -> Result<u64, i32> {
        let mut out: c_long = 0;
        let r = unsafe { libc::syscall(libc::SYS_ptrace, 2 as c_long, self.pid, addr, &mut out as *mut c_long) };
        if r < 0 {
            Err(errno())
        } else {
            Ok(out as u64)
        }
    }
    fn attach(&mut self) -> Result<(), i32> {
        let r = unsafe { libc::syscall(libc::SYS_ptrace, 16 as c_long, self.pid, 0usize, 0usize) };
        if r < 0 {
            Err(errno())
        } else {
            Ok(())
        }
    }
    fn wait(&mut self) -> Result<i32, i32> {
        let mut st: c_int = 0;
        let r = unsafe { libc::syscall(libc::SYS_wait4, self.pid, &mut st as *mut c_int, libc::__WALL, 0usize) };
        if r < 0 {
            Err(errno())
        } else {
            Ok(st)
        }
    }
    fn cont(&mut self, sig: i32) -> Result<(), i32> {
        let r = unsafe { libc::syscall(libc::SYS_ptrace, 7 as c_long, self.pid, 0usize, sig as usize) };
        if r < 0 {
            Err(errno())
        } else {
            Ok(())
        }
    }
    fn detach(&mut self) -> Result<(), i32> {
        let r = unsafe { libc::syscall(libc::SYS_ptrace, 17 as c_long, self.pid, 0usize, 0usize) };
        if r < 0 {
            Err(errno())
        } else {
            Ok(())
        }
    }
    fn kill(&mut self, sig: i32) -> Result<(), i32> {
        let r = unsafe { libc::syscall(libc::SYS_kill, self.pid, sig) };
        if r < 0 {
            Err(errno())
        } else {
            Ok(())
        }
    }
    fn send_usr1(&mut self) {
        unsafe {
            libc::syscall(libc::SYS_tgkill, self.pid, self.pid, libc::SIGUSR1);
        }
    }
    fn state(&mut self) -> char {
        // wait until the state is stable for a few polls
        let mut last = '?';
        let mut same = 0;
        for _ in 0..400 {
            let s = self.stat_state();
            let s = if s == 'R' || s == 'D' { 'S' } else { s };
            if s == last {
                same += 1;
                if same >= 5 {
                    break;
                }
            } else {
                same = 0;
                last = s;
            }
            std::thread::sleep(std::time::Duration::from_millis(2));
        }
        last
    }
    fn delivered(&mut self) -> u64 {
        std::thread::sleep(std::time::Duration::from_millis(30));
        unsafe { std::ptr::read_volatile(self.shared) }
    }
}

// ------------------------------------------------------------------------------------------
// simulated kernel

struct Sim {
    k: Kernel,
    pid: i32,
    memfd: i32,
    next_id: u32,
}

impl Sim {
    fn new() -> Sim {
        let pid = 0x4000_2000;
        let mut regions = Vec::new();
        for (pg, n, perms) in layout() {
            let start = BASE + pg * PAGE;
            let bytes: Vec<u8> = (0..n * PAGE).map(|i| pat(start + i)).collect();
            regions.push(RegionSpec { start, len: n * PAGE, perms: perms.to_string(), offset: 0, inode: 0, name: B(Vec::new()), deleted: false, content: Content::Bytes(B(bytes)) });
        }
        let world = World {
            pid,
            ppid: 1,
            threads: vec![ThreadSpec { tid: pid, comm: B::s("child"), regs: vec![1; NREGS], fp: B(vec![0; 512]), dregs: vec![0; 8], program: Program::Parked, foreign_tracer: false, zombie: false, stop_latency_ns: 0, comm_fault: None, blocked_until_ns: 0, compat32: false }],
            regions,
            uname: vec!["Linux".into(), "r".into(), "v".into(), "x86_64".into()],
            ..Default::default()
        };
        let sc = Scenario { prop: "conformance".into(), seed: 0, profile: "conformance".into(), world, workload: Workload::MemRead(Vec::new()), events: Vec::new(), faults: Vec::new(), sched: Sched { steps_per_call: 0, ..Sched::default() }, tags: Vec::new() };
        let mut k = Kernel::new(&sc);
        let of = k.sys_open(format!("/proc/{}/mem", pid).as_bytes()).expect("sim mem file");
        k.install_fd(1000, of);
        Sim { k, pid, memfd: 1000, next_id: 1 }
    }
}

impl Sys for Sim {
    fn vm_read(&mut self, addr: u64, len: usize) -> Result<Vec<u8>, i32> {
        self.k.sys_vmreadv(self.pid, addr, len)
    }
    fn mem_read(&mut self, addr: u64, len: usize) -> Result<Vec<u8>, i32> {
        self.k.sys_pread(self.memfd, len, addr)
    }
    fn peek(&mut self, addr: u64) -> Result<u64, i32> {
        self.k.sys_ptrace_peekdata(self.pid, addr)
    }
    fn attach(&mut self) -> Result<(), i32> {
        self.k.sys_ptrace_attach(self.pid)
    }
    fn wait(&mut self) -> Result<i32, i32> {
        self.k.sys_waitpid(self.pid).map(|x| x.1)
    }
    fn cont(&mut self, sig: i32) -> Result<(), i32> {
        self.k.sys_ptrace_cont(self.pid, sig)
    }
    fn detach(&mut self) -> Result<(), i32> {
        self.k.sys_ptrace_detach(self.pid, 0)
    }
    fn kill(&mut self, sig: i32) -> Result<(), i32> {
        self.k.sys_kill(self.pid, sig)
    }
    fn send_usr1(&mut self) {
        let id = self.next_id;
        self.next_id += 1;
        let pid = self.pid;
        self.k.apply_event_pub(&EventKind::SignalThread { tid: pid, signo: SIGUSR1, id });
    }
    fn state(&mut self) -> char {
        self.k.settle(20);
        let text = String::from_utf8_lossy(&self.k.vfs_lookup(format!("/proc/{}/stat", self.pid).as_bytes()).map(|x| x.0).unwrap_or_default()).into_owned();
        text.rsplit(')').next().and_then(|r| r.trim_start().chars().next()).unwrap_or('?')
    }
    fn delivered(&mut self) -> u64 {
        self.k.settle(20);
        self.k.gt.delivered.len() as u64
    }
}

// ------------------------------------------------------------------------------------------
// micro-scenarios

fn fmt_read(r: Result<Vec<u8>, i32>, addr: u64) -> String {
    match r {
        Ok(v) => {
            let good = v.iter().enumerate().all(|(i, b)| *b == pat(addr + i as u64));
            format!("ok {} {}", v.len(), if good { "bytes-match" } else { "BYTES-DIFFER" })
        }
        Err(e) => format!("errno {}", e),
    }
}

fn status_str(r: Result<i32, i32>) -> String {
    match r {
        Ok(st) => {
            if st & 0xff == 0x7f {
                format!("stopped({})", (st >> 8) & 0xff)
            } else if st & 0x7f == 0 {
                format!("exited({})", (st >> 8) & 0xff)
            } else {
                format!("signaled({})", st & 0x7f)
            }
        }
        Err(e) => format!("errno {}", e),
    }
}

fn r2s(r: Result<(), i32>) -> String {
    match r {
        Ok(()) => "ok".into(),
        Err(e) => format!("errno {}", e),
    }
}

/// the read cases: (address, length, label)
fn read_cases() -> Vec<(u64, usize, &'static str)> {
    let p = |pg: u64| BASE + pg * PAGE;
    vec![
        (p(0) + 3, 13, "inside"),
        (p(2) - 13, 13, "ends at end of run"),
        (p(2) - 13, 14, "one byte into hole"),
        (p(2) - 8, 4104, "across hole"),
        (p(2), 8, "starts in hole"),
        (p(3) + 100, 64, "read-only page"),
        (p(4) - 8, 16, "readable into PROT_NONE"),
        (p(4), 16, "starts in PROT_NONE"),
        (p(4) + 4088, 16, "PROT_NONE into rw"),
        (p(6) - 5, 5, "last bytes before final hole"),
        (p(6) - 5, 6, "into final hole"),
        (p(0), 8192, "two whole pages"),
        (p(0) + 1, 8191, "unaligned to end of run"),
    ]
}

fn script(sys: &mut dyn Sys, which: usize) -> Vec<String> {
    let mut log = Vec::new();
    match which {
        0 => {
            // memory calls (word reads need a stopped tracee)
            log.push(format!("attach {}", r2s(sys.attach())));
            log.push(format!("wait {}", status_str(sys.wait())));
            for (addr, len, label) in read_cases() {
                log.push(format!("vm {} -> {}", label, fmt_read(sys.vm_read(addr, len), addr)));
                log.push(format!("mem {} -> {}", label, fmt_read(sys.mem_read(addr, len), addr)));
                // word reads at the first and the last word of the range
                for (w, a) in [("first", addr), ("last", addr + len as u64 - 8)] {
                    let r = sys.peek(a).map(|v| v.to_le_bytes().to_vec());
                    log.push(format!("peek {} {} -> {}", label, w, fmt_read(r, a)));
                }
            }
            log.push(format!("detach {}", r2s(sys.detach())));
        }
        1 => {
            // attach to a running process, detach
            log.push(format!("state {}", sys.state()));
            log.push(format!("attach {}", r2s(sys.attach())));
            log.push(format!("wait {}", status_str(sys.wait())));
            log.push(format!("state {}", sys.state()));
            log.push(format!("detach {}", r2s(sys.detach())));
            log.push(format!("state {}", sys.state()));
            log.push(format!("detach-again {}", r2s(sys.detach())));
        }
        2 => {
            // SIGSTOP first (group stop), then attach / detach / SIGCONT
            log.push(format!("kill-stop {}", r2s(sys.kill(SIGSTOP))));
            log.push(format!("state {}", sys.state()));
            log.push(format!("attach {}", r2s(sys.attach())));
            log.push(format!("wait {}", status_str(sys.wait())));
            log.push(format!("state {}", sys.state()));
            log.push(format!("detach {}", r2s(sys.detach())));
            log.push(format!("state {}", sys.state()));
            log.push(format!("kill-cont {}", r2s(sys.kill(SIGCONT))));
            log.push(format!("state {}", sys.state()));
        }
        3 => {
            // a signal becomes pending while the tracee is stopped; after PTRACE_CONT(0) it is
            // reported as a signal-delivery-stop; the tracer re-injects it: handler runs once
            log.push(format!("attach {}", r2s(sys.attach())));
            log.push(format!("wait {}", status_str(sys.wait())));
            sys.send_usr1();
            log.push(format!("cont-0 {}", r2s(sys.cont(0))));
            log.push(format!("wait {}", status_str(sys.wait())));
            log.push(format!("cont-reinject {}", r2s(sys.cont(SIGUSR1))));
            log.push(format!("kill-stop {}", r2s(sys.kill(SIGSTOP))));
            log.push(format!("wait {}", status_str(sys.wait())));
            log.push(format!("detach {}", r2s(sys.detach())));
            log.push(format!("delivered {}", sys.delivered()));
            log.push(format!("state {}", sys.state()));
        }
        4 => {
            // signals sent while the tracee is stopped stay pending and arrive once after detach
            log.push(format!("attach {}", r2s(sys.attach())));
            log.push(format!("wait {}", status_str(sys.wait())));
            sys.send_usr1();
            log.push(format!("delivered-while-stopped {}", sys.delivered()));
            log.push(format!("detach {}", r2s(sys.detach())));
            log.push(format!("delivered {}", sys.delivered()));
        }
        5 => {
            // the same, but the tracer suppresses the signal (continue with 0): it is lost
            log.push(format!("attach {}", r2s(sys.attach())));
            log.push(format!("wait {}", status_str(sys.wait())));
            sys.send_usr1();
            log.push(format!("cont-0 {}", r2s(sys.cont(0))));
            log.push(format!("wait {}", status_str(sys.wait())));
            log.push(format!("cont-suppress {}", r2s(sys.cont(0))));
            log.push(format!("kill-stop {}", r2s(sys.kill(SIGSTOP))));
            log.push(format!("wait {}", status_str(sys.wait())));
            log.push(format!("detach {}", r2s(sys.detach())));
            log.push(format!("delivered {}", sys.delivered()));
            log.push(format!("state {}", sys.state()));
        }
        6 => {
            // SIGKILL while attached
            log.push(format!("attach {}", r2s(sys.attach())));
            log.push(format!("wait {}", status_str(sys.wait())));
            log.push(format!("kill-9 {}", r2s(sys.kill(SIGKILL))));
            log.push(format!("wait {}", status_str(sys.wait())));
            log.push(format!("detach {}", r2s(sys.detach())));
            log.push(format!("attach-dead {}", r2s(sys.attach())));
            log.push(format!("vm-dead {}", fmt_read(sys.vm_read(BASE, 8), BASE)));
        }
        7 => {
            // stop, attach, SIGCONT while attached (tracee stays in ptrace-stop), detach
            log.push(format!("kill-stop {}", r2s(sys.kill(SIGSTOP))));
            log.push(format!("state {}", sys.state()));
            log.push(format!("attach {}", r2s(sys.attach())));
            log.push(format!("wait {}", status_str(sys.wait())));
            log.push(format!("kill-cont {}", r2s(sys.kill(SIGCONT))));
            log.push(format!("state {}", sys.state()));
            log.push(format!("detach {}", r2s(sys.detach())));
            log.push(format!("state {}", sys.state()));
        }
        _ => {}
    }
    log
}

pub const NSCRIPTS: usize = 8;

/// child mode: a second thread sleeps forever, the initial thread exits (becomes a zombie leader)
pub fn child_zombie_leader() -> ! {
    std::thread::spawn(|| loop {
        std::thread::sleep(std::time::Duration::from_millis(5));
    });
    std::thread::sleep(std::time::Duration::from_millis(50));
    // exit only this thread (raw exit, not exit_group): the process lives on with a zombie leader
    unsafe {
        libc::syscall(libc::SYS_exit, 0);
    }
    unreachable!()
}

fn errno_of_open(path: &str) -> String {
    match std::fs::File::open(path) {
        Ok(mut f) => {
            use std::io::Read;
            let mut v = Vec::new();
            match f.read_to_end(&mut v) {
                Ok(n) => format!("open ok, {} bytes", if n == 0 { "0".to_string() } else { ">0".to_string() }),
                Err(e) => format!("open ok, read errno {}", e.raw_os_error().unwrap_or(-1)),
            }
        }
        Err(e) => format!("open errno {}", e.raw_os_error().unwrap_or(-1)),
    }
}

/// facts about a process whose initial thread has exited, real kernel vs model
fn zombie_leader_lane() -> Result<(usize, usize), String> {
    let exe = std::env::current_exe().map_err(|e| e.to_string())?;
    let mut child = std::process::Command::new(exe).arg("conformance-child").spawn().map_err(|e| e.to_string())?;
    let pid = child.id() as i32;
    // wait until the leader is a zombie and a second task exists
    let t0 = std::time::Instant::now();
    let mut other = 0;
    loop {
        let st = std::fs::read_to_string(format!("/proc/{}/stat", pid)).unwrap_or_default();
        let z = st.rsplit(')').next().map(|r| r.trim_start().starts_with('Z')).unwrap_or(false);
        if let Ok(rd) = std::fs::read_dir(format!("/proc/{}/task", pid)) {
            for e in rd.flatten() {
                if let Ok(t) = e.file_name().to_string_lossy().parse::<i32>() {
                    if t != pid {
                        other = t;
                    }
                }
            }
        }
        if z && other != 0 {
            break;
        }
        if t0.elapsed().as_secs() > 5 {
            let _ = child.kill();
            let _ = child.wait();
            return Err("child did not reach the zombie-leader state".into());
        }
        std::thread::sleep(std::time::Duration::from_millis(5));
    }
    let mut real: Vec<String> = Vec::new();
    for f in ["auxv", "maps", "cmdline", "environ", "comm", "status", "limits"] {
        real.push(format!("leader {} -> {}", f, errno_of_open(&format!("/proc/{}/{}", pid, f))));
    }
    real.push(format!("other maps -> {}", errno_of_open(&format!("/proc/{}/maps", other))));
    real.push(format!("other auxv -> {}", errno_of_open(&format!("/proc/{}/auxv", other))));
    let some = |s: String| if s == "0 entries" || s.starts_with("errno") { s } else { "some entries".to_string() };
    real.push(format!("leader fd dir -> {}", some(dir_count(&format!("/proc/{}/fd", pid)))));
    real.push(format!("other fd dir -> {}", some(dir_count(&format!("/proc/{}/fd", other)))));
    real.push(format!("other fd dir through task -> {}", some(dir_count(&format!("/proc/{}/task/{}/fd", pid, other)))));
    let attach = |t: i32| -> String {
        let r = unsafe { libc::syscall(libc::SYS_ptrace, 16 as c_long, t, 0usize, 0usize) };
        if r < 0 {
            format!("errno {}", errno())
        } else {
            let mut st: c_int = 0;
            unsafe {
                libc::syscall(libc::SYS_wait4, t, &mut st as *mut c_int, libc::__WALL, 0usize);
                libc::syscall(libc::SYS_ptrace, 17 as c_long, t, 0usize, 0usize);
            }
            "ok".to_string()
        }
    };
    real.push(format!("attach leader -> {}", attach(pid)));
    real.push(format!("attach other -> {}", attach(other)));
    let mut buf = [0u8; 8];
    let l = libc::iovec { iov_base: buf.as_mut_ptr() as *mut c_void, iov_len: 8 };
    let rv = libc::iovec { iov_base: (&buf as *const u8) as *mut c_void, iov_len: 8 };
    let n = unsafe { libc::syscall(libc::SYS_process_vm_readv, pid, &l as *const libc::iovec, 1usize, &rv as *const libc::iovec, 1usize, 0usize) };
    real.push(format!("vm_readv via leader -> {}", if n < 0 { format!("errno {}", errno()) } else { "ok".into() }));
    let _ = child.kill();
    let _ = child.wait();

    // the model
    let mut sim = Sim::new();
    let spid = sim.pid;
    let mut second = sim.k.threads[0].clone();
    second.tid = spid + 1;
    sim.k.threads.push(second);
    sim.k.threads[0].life = Life::Zombie;
    sim.k.world.auxv = vec![(3, 0x1000)];
    sim.k.world.auxv_terminated = true;
    sim.k.world.cmdline = B(b"x\0".to_vec());
    sim.k.world.environ = B(b"A=B\0".to_vec());
    sim.k.world.limits = B(b"Limit\n".to_vec());
    let mut model: Vec<String> = Vec::new();
    let probe = |k: &mut Kernel, path: String| -> String {
        match k.vfs_lookup(path.as_bytes()) {
            Ok((c, _, _, _)) => format!("open ok, {} bytes", if c.is_empty() { "0" } else { ">0" }),
            Err(e) => format!("open errno {}", e),
        }
    };
    for f in ["auxv", "maps", "cmdline", "environ", "comm", "status", "limits"] {
        let r = probe(&mut sim.k, format!("/proc/{}/{}", spid, f));
        model.push(format!("leader {} -> {}", f, r));
    }
    let r = probe(&mut sim.k, format!("/proc/{}/maps", spid + 1));
    model.push(format!("other maps -> {}", r));
    let r = probe(&mut sim.k, format!("/proc/{}/auxv", spid + 1));
    model.push(format!("other auxv -> {}", r));
    sim.k.world.fds = vec![FdSpec { fd: 0, target: B::s("/dev/null"), mode: 0o020666, stat_fails: false, link_fails: false }];
    let count = |k: &mut Kernel, path: String| -> String {
        match k.sys_opendir(path.as_bytes()) {
            Err(e) => format!("errno {}", e),
            Ok(d) => {
                let key = 0x7778usize;
                k.dirs.insert(key, d);
                let mut n = 0;
                while let Ok(Some(name)) = k.sys_readdir(key) {
                    if name != b"." && name != b".." {
                        n += 1;
                    }
                }
                k.sys_closedir(key);
                if n == 0 { "0 entries".to_string() } else { "some entries".to_string() }
            }
        }
    };
    let r = count(&mut sim.k, format!("/proc/{}/fd", spid));
    model.push(format!("leader fd dir -> {}", r));
    let r = count(&mut sim.k, format!("/proc/{}/fd", spid + 1));
    model.push(format!("other fd dir -> {}", r));
    let r = count(&mut sim.k, format!("/proc/{}/task/{}/fd", spid, spid + 1));
    model.push(format!("other fd dir through task -> {}", r));
    model.push(format!("attach leader -> {}", r2s(sim.k.sys_ptrace_attach(spid))));
    let a = sim.k.sys_ptrace_attach(spid + 1);
    if a.is_ok() {
        let _ = sim.k.sys_waitpid(spid + 1);
        let _ = sim.k.sys_ptrace_detach(spid + 1, 0);
    }
    model.push(format!("attach other -> {}", r2s(a)));
    model.push(format!("vm_readv via leader -> {}", match sim.k.sys_vmreadv(spid, BASE, 8) { Ok(_) => "ok".to_string(), Err(e) => format!("errno {}", e) }));
    let mut bad = 0;
    for i in 0..real.len().max(model.len()) {
        let a = model.get(i).cloned().unwrap_or_default();
        let b = real.get(i).cloned().unwrap_or_default();
        if a != b {
            bad += 1;
            eprintln!("conformance divergence (zombie leader) step {}:\n   simulated: {}\n   real     : {}", i, a, b);
        }
    }
    Ok((real.len(), bad))
}

pub fn child_three_threads() -> ! {
    for _ in 0..2 {
        std::thread::spawn(|| loop {
            std::thread::sleep(std::time::Duration::from_secs(1));
        });
    }
    loop {
        std::thread::sleep(std::time::Duration::from_secs(1));
    }
}

fn dir_count(path: &str) -> String {
    match std::fs::read_dir(path) {
        Ok(rd) => format!("{} entries", rd.flatten().count()),
        Err(e) => format!("errno {}", e.raw_os_error().unwrap_or(-1)),
    }
}

/// facts about a process that is killed (SIGKILL) while all its threads are ptrace-attached:
/// real kernel vs model
fn killed_while_attached_lane() -> Result<(usize, usize), String> {
    let exe = std::env::current_exe().map_err(|e| e.to_string())?;
    let mut child = std::process::Command::new(exe).arg("conformance-child-threads").spawn().map_err(|e| e.to_string())?;
    let pid = child.id() as i32;
    let t0 = std::time::Instant::now();
    let mut tids: Vec<i32>;
    loop {
        tids = std::fs::read_dir(format!("/proc/{}/task", pid)).map(|rd| rd.flatten().filter_map(|e| e.file_name().to_string_lossy().parse::<i32>().ok()).collect()).unwrap_or_default();
        if tids.len() == 3 {
            break;
        }
        if t0.elapsed().as_secs() > 5 {
            let _ = child.kill();
            let _ = child.wait();
            return Err("child did not start its threads".into());
        }
        std::thread::sleep(std::time::Duration::from_millis(5));
    }
    tids.sort();
    let mut real: Vec<String> = Vec::new();
    unsafe {
        libc::kill(pid, libc::SIGSTOP);
    }
    std::thread::sleep(std::time::Duration::from_millis(30));
    for t in &tids {
        let r = unsafe { libc::syscall(libc::SYS_ptrace, 16 as c_long, *t, 0usize, 0usize) };
        let mut st: c_int = 0;
        let w = unsafe { libc::syscall(libc::SYS_wait4, *t, &mut st as *mut c_int, libc::__WALL, 0usize) };
        real.push(format!("attach -> {} wait {} status {:#x}", r, if w as i32 == *t { "tid" } else { "other" }, st));
    }
    unsafe {
        libc::kill(pid, libc::SIGKILL);
    }
    std::thread::sleep(std::time::Duration::from_millis(60));
    for f in ["auxv", "maps", "cmdline", "environ", "comm", "status", "limits", "stat", "mem"] {
        real.push(format!("leader {} -> {}", f, errno_of_open(&format!("/proc/{}/{}", pid, f))));
    }
    let other = tids[1];
    for f in ["status", "comm"] {
        real.push(format!("other task {} -> {}", f, errno_of_open(&format!("/proc/{}/task/{}/{}", pid, other, f))));
    }
    real.push(format!("other maps -> {}", errno_of_open(&format!("/proc/{}/maps", other))));
    real.push(format!("task dir -> {}", dir_count(&format!("/proc/{}/task", pid))));
    real.push(format!("fd dir -> {}", dir_count(&format!("/proc/{}/fd", pid))));
    let st = std::fs::read_to_string(format!("/proc/{}/task/{}/stat", pid, other)).unwrap_or_default();
    real.push(format!("other state -> {}", st.rsplit(')').next().map(|r| r.trim_start().chars().next().unwrap_or('?')).unwrap_or('?')));
    for t in [pid, other] {
        let mut regs = [0u64; 27];
        let r = unsafe { libc::syscall(libc::SYS_ptrace, 12 as c_long, t, 0usize, regs.as_mut_ptr()) };
        real.push(format!("getregs -> {}", if r < 0 { format!("errno {}", errno()) } else { "ok".into() }));
        let mut word = 0u64;
        let r = unsafe { libc::syscall(libc::SYS_ptrace, 2 as c_long, t, &real as *const _ as usize, &mut word as *mut u64) };
        real.push(format!("peekdata -> {}", if r < 0 { format!("errno {}", errno()) } else { "ok".into() }));
        let mut buf = [0u8; 8];
        let l = libc::iovec { iov_base: buf.as_mut_ptr() as *mut c_void, iov_len: 8 };
        let rv = libc::iovec { iov_base: (&buf as *const u8) as *mut c_void, iov_len: 8 };
        let n = unsafe { libc::syscall(libc::SYS_process_vm_readv, t, &l as *const libc::iovec, 1usize, &rv as *const libc::iovec, 1usize, 0usize) };
        real.push(format!("vm_readv -> {}", if n < 0 { format!("errno {}", errno()) } else { "ok".into() }));
    }
    // a fourth attach attempt on a killed thread
    let r = unsafe { libc::syscall(libc::SYS_ptrace, 16 as c_long, other, 0usize, 0usize) };
    real.push(format!("attach again -> {}", if r < 0 { format!("errno {}", errno()) } else { "ok".into() }));
    for t in &tids {
        let r = unsafe { libc::syscall(libc::SYS_ptrace, 17 as c_long, *t, 0usize, 0usize) };
        real.push(format!("detach -> {}", if r < 0 { format!("errno {}", errno()) } else { "ok".into() }));
    }
    let r = unsafe { libc::kill(pid, libc::SIGCONT) };
    real.push(format!("kill SIGCONT -> {}", if r < 0 { format!("errno {}", errno()) } else { "ok".into() }));
    real.push(format!("leader status afterwards -> {}", errno_of_open(&format!("/proc/{}/status", pid))));
    for t in tids.iter().rev() {
        let mut st: c_int = 0;
        let w = unsafe { libc::syscall(libc::SYS_wait4, *t, &mut st as *mut c_int, libc::__WALL, 0usize) };
        real.push(format!("wait -> {} status {:#x}", if w as i32 == *t { "tid".to_string() } else { format!("errno {}", errno()) }, st));
    }
    std::thread::sleep(std::time::Duration::from_millis(30));
    let _ = child.wait();
    real.push(format!("leader status after reaping -> {}", errno_of_open(&format!("/proc/{}/status", pid))));

    // the model
    let mut sim = Sim::new();
    let spid = sim.pid;
    for n in 1..3 {
        let mut t = sim.k.threads[0].clone();
        t.tid = spid + n;
        sim.k.threads.push(t);
    }
    sim.k.world.auxv = vec![(3, 0x1000)];
    sim.k.world.auxv_terminated = true;
    sim.k.world.cmdline = B(b"x\0".to_vec());
    sim.k.world.environ = B(b"A=B\0".to_vec());
    sim.k.world.limits = B(b"Limit\n".to_vec());
    sim.k.world.fds = vec![FdSpec { fd: 0, target: B::s("/dev/null"), mode: 0o020666, stat_fails: false, link_fails: false }];
    let stids = [spid, spid + 1, spid + 2];
    let mut model: Vec<String> = Vec::new();
    let _ = sim.k.sys_kill(spid, 19);
    sim.k.step_all(4);
    for t in stids {
        let r = sim.k.sys_ptrace_attach(t);
        let w = sim.k.sys_waitpid(t);
        model.push(format!("attach -> {} wait {} status {:#x}", if r.is_ok() { 0 } else { -1 }, match &w { Ok((x, _)) if *x == t => "tid", _ => "other" }, w.map(|x| x.1).unwrap_or(-1)));
    }
    sim.k.kill_process();
    let probe = |k: &mut Kernel, path: String| -> String {
        match k.vfs_lookup(path.as_bytes()) {
            Ok((c, _, _, _)) => format!("open ok, {} bytes", if c.is_empty() { "0" } else { ">0" }),
            Err(e) => format!("open errno {}", e),
        }
    };
    for f in ["auxv", "maps", "cmdline", "environ", "comm", "status", "limits", "stat", "mem"] {
        let r = probe(&mut sim.k, format!("/proc/{}/{}", spid, f));
        model.push(format!("leader {} -> {}", f, r));
    }
    let sother = spid + 1;
    for f in ["status", "comm"] {
        let r = probe(&mut sim.k, format!("/proc/{}/task/{}/{}", spid, sother, f));
        model.push(format!("other task {} -> {}", f, r));
    }
    let r = probe(&mut sim.k, format!("/proc/{}/maps", sother));
    model.push(format!("other maps -> {}", r));
    let count = |k: &mut Kernel, path: String| -> String {
        match k.sys_opendir(path.as_bytes()) {
            Err(e) => format!("errno {}", e),
            Ok(d) => {
                let key = 0x7777usize;
                k.dirs.insert(key, d);
                let mut n = 0;
                while let Ok(Some(name)) = k.sys_readdir(key) {
                    if name != b"." && name != b".." {
                        n += 1;
                    }
                }
                k.sys_closedir(key);
                format!("{} entries", n)
            }
        }
    };
    let r = count(&mut sim.k, format!("/proc/{}/task", spid));
    model.push(format!("task dir -> {}", r));
    let r = count(&mut sim.k, format!("/proc/{}/fd", spid));
    model.push(format!("fd dir -> {}", r));
    let st = sim.k.vfs_lookup(format!("/proc/{}/task/{}/stat", spid, sother).as_bytes()).map(|x| x.0).unwrap_or_default();
    let st = String::from_utf8_lossy(&st).into_owned();
    model.push(format!("other state -> {}", st.rsplit(')').next().map(|r| r.trim_start().chars().next().unwrap_or('?')).unwrap_or('?')));
    for t in [spid, sother] {
        model.push(format!("getregs -> {}", match sim.k.sys_ptrace_getregs(t, 0, CallKind::PtraceGetregs) { Ok(_) => "ok".to_string(), Err(e) => format!("errno {}", e) }));
        model.push(format!("peekdata -> {}", match sim.k.sys_ptrace_peekdata(t, BASE) { Ok(_) => "ok".to_string(), Err(e) => format!("errno {}", e) }));
        model.push(format!("vm_readv -> {}", match sim.k.sys_vmreadv(t, BASE, 8) { Ok(_) => "ok".to_string(), Err(e) => format!("errno {}", e) }));
    }
    model.push(format!("attach again -> {}", match sim.k.sys_ptrace_attach(sother) { Ok(_) => "ok".to_string(), Err(e) => format!("errno {}", e) }));
    for t in stids {
        model.push(format!("detach -> {}", match sim.k.sys_ptrace_detach(t, 0) { Ok(_) => "ok".to_string(), Err(e) => format!("errno {}", e) }));
    }
    model.push(format!("kill SIGCONT -> {}", match sim.k.sys_kill(spid, 18) { Ok(_) => "ok".to_string(), Err(e) => format!("errno {}", e) }));
    let r = probe(&mut sim.k, format!("/proc/{}/status", spid));
    model.push(format!("leader status afterwards -> {}", r));
    for t in stids.iter().rev() {
        let w = sim.k.sys_waitpid(*t);
        model.push(match w { Ok((x, st)) => format!("wait -> {} status {:#x}", if x == *t { "tid".to_string() } else { "other".to_string() }, st), Err(e) => format!("wait -> errno {} status 0x0", e) });
    }
    let r = probe(&mut sim.k, format!("/proc/{}/status", spid));
    model.push(format!("leader status after reaping -> {}", r));
    let mut bad = 0;
    for i in 0..real.len().max(model.len()) {
        let a = model.get(i).cloned().unwrap_or_default();
        let b = real.get(i).cloned().unwrap_or_default();
        if a != b {
            bad += 1;
            eprintln!("conformance divergence (killed while attached) step {}:\n   simulated: {}\n   real     : {}", i, a, b);
        }
    }
    Ok((real.len(), bad))
}

pub fn run() -> i32 {
    let mut total = 0;
    let mut bad = 0;
    for which in 0..NSCRIPTS {
        let mut sim = Sim::new();
        let slog = script(&mut sim, which);
        let Some(mut real) = Real::spawn() else {
            eprintln!("HARNESS-ERROR: conformance lane cannot fork / ptrace a real child here");
            return 2;
        };
        let rlog = script(&mut real, which);
        real.reap();
        if rlog.first().map(|l| l.contains("errno 1")).unwrap_or(false) && which == 0 {
            eprintln!("conformance: ptrace is not permitted in this environment; lane skipped");
            return 0;
        }
        for i in 0..slog.len().max(rlog.len()) {
            total += 1;
            let a = slog.get(i).cloned().unwrap_or_default();
            let b = rlog.get(i).cloned().unwrap_or_default();
            if a != b {
                bad += 1;
                eprintln!("conformance divergence in script {} step {}:\n   simulated: {}\n   real     : {}", which, i, a, b);
            }
        }
    }
    match zombie_leader_lane() {
        Ok((n, b)) => {
            total += n;
            bad += b;
        }
        Err(e) => eprintln!("conformance: zombie-leader lane skipped: {}", e),
    }
    match killed_while_attached_lane() {
        Ok((n, b)) => {
            total += n;
            bad += b;
        }
        Err(e) => eprintln!("conformance: killed-while-attached lane skipped: {}", e),
    }
    println!("conformance: {} observations compared against the real kernel, {} divergent", total, bad);
    let path = format!("{}/sim/conformance_result.json", crate::driver::verif_dir());
    let _ = std::fs::write(&path, format!("{{\"observations\": {}, \"divergent\": {}, \"scripts\": {}}}", total, bad, NSCRIPTS));
    if bad > 0 {
        eprintln!("HARNESS-ERROR: the simulated kernel diverges from the real one");
        2
    } else {
        0
    }
}
